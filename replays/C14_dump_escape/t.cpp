typedef unsigned int u32; template<class T> struct V { T t; }; typedef V<int> VI; using W = V<u32>; void f(VI a, W b, u32 c) { (void)a; (void)b; (void)c; }
