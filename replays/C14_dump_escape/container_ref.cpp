#include <vector>
int f(std::vector<int>& v) { return v.size(); }
