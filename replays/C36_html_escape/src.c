int main(void)
{
  int a[2];
  a[3] = 0;
  return 0;
}
