void f(void) {}
