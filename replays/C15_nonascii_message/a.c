#error café
int x;
