int y;
