#!/bin/sh
# $1 = cppcheck binary. The text of a finding must not depend on the executor.
B=$1; D=$(cd "$(dirname "$0")" && pwd); cd $D; T="--template={file}:{line}:{id}:{message}"
a=$($B -q -j1 $T a.c b.c 2>&1 | grep preprocessorErrorDirective); b=$($B -q -j2 --executor=process $T a.c b.c 2>&1 | grep preprocessorErrorDirective)
printf "%s\n" "-j1:      $a" "process:  $b"; [ "$a" = "$b" ]
