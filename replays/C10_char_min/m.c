int a[4];
void f(void) {
#if CHAR_MIN < 0
  a[5] = 0;
#else
  a[6] = 0;
#endif
}
