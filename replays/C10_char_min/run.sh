#!/bin/sh
# $1 = cppcheck binary. platforms/arm32-wchar_t2.xml declares plain char unsigned, so CHAR_MIN is 0 and only the #else branch (line 6) is live.
B=$1; D=$(cd "$(dirname "$0")" && pwd)
out=$($B -q --platform=arm32-wchar_t2 --template='{line}:{id}' $D/m.c 2>&1 | sort | tr '\n' ' ')
echo "reported: $out (a compiler with unsigned plain char compiles only line 6)"; [ "$out" = "6:arrayIndexOutOfBounds " ]
