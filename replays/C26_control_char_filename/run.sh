#!/bin/sh
# $1 = cppcheck binary. A source file whose name contains a control character: the XML output must stay well-formed.
B=$1; t=$(mktemp -d); cd $t; n=$(printf 'b\001c.c'); printf 'void g(void) {\n    int a[2];\n    a[3] = 0;\n}\n' > "$n"
$B -q --xml "$n" 2> r.xml
python3 -c "import xml.dom.minidom; xml.dom.minidom.parse('r.xml'); print('well-formed')"; rc=$?
rm -rf $t; exit $rc
