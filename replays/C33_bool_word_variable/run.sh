#!/bin/bash
# run.sh <match-compiled cppcheck> <cppcheck built with -DUSE_MATCHCOMPILER=Off>
# C33 / R33.5 (known finding): tools/matchcompiler.py::tokTypes types the literal words 'true' / 'false' as eBoolean only.  In C code that declares
# a variable named true / false the token has a variable id and Token::update_property_info makes it eVariable: the compiled patterns
# "false" / "true" (isVariableExprHidden, lib/checkother.cpp) fail where the interpreted matcher matches.
# Exit 1 when the two builds report different findings.
mc=${1:-/repo/_build/bin/cppcheck}; interp=${2:?second argument: a cppcheck built with -DUSE_MATCHCOMPILER=Off}
d=$(mktemp -d); trap 'rm -rf $d' EXIT
cat > $d/t.c <<'X'
void g(int);
void f(int x) {
    const int false = 0;
    g(x && false);
}
void h(int x) {
    const int true = 1;
    g(x || true);
}
X
a=$($mc -q --enable=style --std=c89 --template='{line}:{id}' $d/t.c 2>&1 | sort | tr '\n' ' ')
b=$($interp -q --enable=style --std=c89 --template='{line}:{id}' $d/t.c 2>&1 | sort | tr '\n' ' ')
echo "compiled   : $a"; echo "interpreted: $b"
[ "$a" == "$b" ] || { echo "DIFFER"; exit 1; }
exit 0
