#!/bin/sh
# $1 = cppcheck binary. The XML report must carry the same findings whatever --template says (XML does not use the template).
B=$1; D=$(cd "$(dirname "$0")" && pwd)
a=$($B -q --xml $D/a.c 2>&1 | grep -c '<error '); b=$($B -q --xml --template='{id}' $D/a.c 2>&1 | grep -c '<error ')
echo "plain --xml: $a findings; --xml --template={id}: $b findings"; [ "$a" = "$b" ]
