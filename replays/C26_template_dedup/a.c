void f(void) {
    int a[2];
    a[2] = 0;
    a[3] = 0;
    a[4] = 0;
}
