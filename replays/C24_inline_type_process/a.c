// cppcheck-suppress-file unusedFunction

void f(void) {}
