#!/bin/sh
# $1 = cppcheck binary. cppcheck-suppress-file for a whole-program finding: thread and process executor must agree (nothing reported).
B=$1; D=$(cd "$(dirname "$0")" && pwd); t=$(mktemp -d); cp $D/a.c $D/b.c $t; cd $t; rc=0
for ex in thread process; do rm -rf bd; mkdir bd
  out=$($B -q --enable=information,unusedFunction --inline-suppr -j2 --executor=$ex --cppcheck-build-dir=bd --suppress=checkersReport --template='{file}:{line}:{id}' a.c b.c 2>&1)
  echo "$ex: '$out'"; [ -z "$out" ] || rc=1
done; rm -rf $t; exit $rc
