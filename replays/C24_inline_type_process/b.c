int main(void) { return 0; }
