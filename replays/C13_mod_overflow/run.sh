#!/bin/sh
# $1 = cppcheck binary. Must terminate normally (an internalError finding is fine).
timeout 60 $1 -q --template='{id}:{message}' "$(dirname "$0")/fpe.cpp"; rc=$?; echo "exit status $rc"; [ $rc -eq 0 ]
