template<long long N> struct S { };
S<(-9223372036854775807 - 1) % -1> s;
