#!/bin/sh
# $1 = cppcheck binary. The inline suppression must hide the finding for both spellings of the base path.
B=$1; P=$(cd "$(dirname "$0")" && pwd); rc=0
for rp in "$P" "$P/"; do
  out=$($B -q --inline-suppr -rp=$rp --template='{file}:{line}:{id}' $P/src/a.c 2>&1)
  echo "-rp=$rp -> '$out'"; [ -z "$out" ] || rc=1
done
exit $rc
