void f(void) {
    int a[2];
    // cppcheck-suppress arrayIndexOutOfBounds
    a[3] = 0;
}
