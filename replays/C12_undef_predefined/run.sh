#!/bin/sh
# $1 = cppcheck binary.  -U__cplusplus / -U__STDC_VERSION__ / -U__FILE__: no analysed configuration may define the macro (g++ -U... -E prints nothing for these blocks).
B=$1; t=$(mktemp -d); cd $t
printf '#ifdef __cplusplus\nint cpp_defined;\n#endif\n#ifdef __FILE__\nint file_defined;\n#endif\n' > t.cpp
printf '#ifdef __STDC_VERSION__\nint stdc_defined;\n#endif\n' > t.c
a=$($B -q -U__cplusplus -U__FILE__ -E t.cpp 2>&1 | grep -c '_defined')
b=$($B -q --std=c11 -U__STDC_VERSION__ -E t.c 2>&1 | grep -c '_defined')
echo "lines of -U'd blocks that survive preprocessing: t.cpp=$a t.c=$b"; rm -rf $t; [ "$a" = 0 ] && [ "$b" = 0 ]
