void f(void){ long x = 1L << 40; (void)x; }
