void g(int*p){*p=1;} static void unused1(void){}
