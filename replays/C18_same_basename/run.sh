#!/bin/sh
# $1 = cppcheck binary. main.c and src/main.c in one run: first run with a build dir vs run without.
B=$1; D=$(cd "$(dirname "$0")" && pwd); t=$(mktemp -d); cp -r $D/main.c $D/src $t; mkdir $t/bd; cd $t; T="--template={file}:{line}:{id}:{message}"
$B -q --enable=all --cppcheck-build-dir=bd $T main.c src/main.c 2>&1 | grep unusedFunction | sort > a; $B -q --enable=all $T main.c src/main.c 2>&1 | grep unusedFunction | sort > b
echo "with build dir:"; cat a; echo "fresh:"; cat b; cmp -s a b; rc=$?; rm -rf $t; exit $rc
