void g(int*p); int main(){ g(0); return 0;}
