#if __has_include("cfg.h")
int f(void) { int *p = 0; return *p; }
#endif
int g;
