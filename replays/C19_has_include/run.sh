#!/bin/sh
# $1 = cppcheck binary. Run A with -Iinc and a build dir, run B without -I on the same build dir, run C without -I and without build dir: B must equal C.
B=$1; D=$(cd "$(dirname "$0")" && pwd); t=$(mktemp -d); cp -r $D/inc $D/m.cpp $t; mkdir $t/bd; cd $t
O="-q --std=c++17 --template={file}:{line}:{id}"
$B --cppcheck-build-dir=bd -Iinc $O m.cpp > /dev/null 2>&1; b=$($B --cppcheck-build-dir=bd $O m.cpp 2>&1); c=$($B $O m.cpp 2>&1)
printf 'with build dir: "%s"\nfresh:          "%s"\n' "$b" "$c"; rm -rf $t; [ "$b" = "$c" ]
