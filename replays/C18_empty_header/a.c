#include "e.h"
int main(void){return 0;}
