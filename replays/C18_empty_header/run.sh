#!/bin/sh
# $1 = cppcheck binary. History: header missing -> run; header created with a comment only -> run with the same build dir vs fresh.
B=$1; d=$(mktemp -d); cp "$(dirname "$0")/a.c" $d; mkdir $d/bd; cd $d
$B -q --enable=missingInclude --cppcheck-build-dir=bd --template='{file}:{line}:{id}' a.c 2>&1 | grep -v checkersReport > r1
echo '/* only a comment */' > e.h
$B -q --enable=missingInclude --cppcheck-build-dir=bd --template='{file}:{line}:{id}' a.c 2>&1 | grep -v checkersReport > r2
$B -q --enable=missingInclude --template='{file}:{line}:{id}' a.c 2>&1 | grep -v checkersReport > r3
echo "with build dir:"; cat r2; echo "fresh:"; cat r3; cmp -s r2 r3; rc=$?; rm -rf $d; exit $rc
