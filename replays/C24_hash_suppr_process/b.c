void g(void) { int x[2]; x[5] = 1; }
