void f(void) { int *p = 0; *p = 1; }
