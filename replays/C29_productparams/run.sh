#!/bin/sh
# $1 = cppcheck binary. Same input twice; the second run with an allocator setting that changes the relative order of heap addresses.
B=$1; D=$(cd "$(dirname "$0")" && pwd); T="--template={file}:{line}:{column}:{id}"
a=$($B -q --enable=all $T $D/c.c 2>&1 | grep zerodiv); b=$(MALLOC_MMAP_THRESHOLD_=0 $B -q --enable=all $T $D/c.c 2>&1 | grep zerodiv)
echo "default:                  $a"; echo "MALLOC_MMAP_THRESHOLD_=0: $b"; [ "$a" = "$b" ]
