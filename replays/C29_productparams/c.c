int f(int a, int b, int c) {
    return 100 / (b - 20) + 100 / (c - 30);
}
int g(int x) {
    int p = x ? 1 : 2;
    int q = x ? 10 : 20;
    int r = x ? -11 : 30;
    return f(p, q, r);
}
