#!/bin/sh
# $1 = cppcheck binary. Two runs on the same input, the second with an allocator setting that reverses heap address order.
B=$1; D=$(cd "$(dirname "$0")" && pwd); t=$(mktemp -d); cp $D/a.c $D/c.cpp $D/d.cpp $t; cd $t; rc=0
T="--template={line}:{column}:{id}"
$B -q --enable=all --inconclusive $T c.cpp 2>&1 | grep -i copy > o1; MALLOC_MMAP_THRESHOLD_=0 $B -q --enable=all --inconclusive $T c.cpp 2>&1 | grep -i copy > o2
cmp -s o1 o2 && echo "findings: same order" || { echo "findings: order differs"; rc=1; }
for f in a.c d.cpp; do
  $B -q --dump $f; cp $f.dump x1; MALLOC_MMAP_THRESHOLD_=0 $B -q --dump $f; cp $f.dump x2
  python3 - <<'PY' || rc=1
import re,sys
def norm(p):
    s=open(p).read(); ids={}
    return re.sub(r'\b[0-9a-f]{9,16}\b', lambda m: ids.setdefault(m.group(0),'ID%d'%len(ids)), s)
same = norm('x1')==norm('x2')
print('dump identical up to id renaming:', same)
sys.exit(0 if same else 1)
PY
done
rm -rf $t; exit $rc
