int g1; int g2;
void f(int a, int b) { int x = a; int y = b; g1 = x + y; }
void h(int c) { int z = c; g2 = z; }
