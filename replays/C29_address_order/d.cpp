#include <vector>
#include <string>
#include <map>
void f() { std::vector<int> v; std::string s; std::map<int,int> m; v.push_back(1); s += "x"; m[1]=2; }
