class A {
public:
    A() : p(new char[10]), q(new char[10]), r(new char[10]) {}
    A(const A& o) : p(o.p), q(o.q), r(o.r) {}
    A& operator=(const A&) = delete;
    ~A() { delete [] p; delete [] q; delete [] r; }
    char *p; char *q; char *r;
};
