#include "h.h"
void fa(void){ hf(); }
