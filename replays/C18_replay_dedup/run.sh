#!/bin/sh
# $1 = cppcheck binary. History: run a.c b.c; edit b.c; run a.c b.c (a.c replayed from the cache, b.c analysed); run b.c alone with the build dir vs fresh.
B=$1; d=$(mktemp -d); cp "$(dirname "$0")"/a.c "$(dirname "$0")"/b.c "$(dirname "$0")"/h.h $d; mkdir $d/bd; cd $d
T="--template={file}:{line}:{id}"
$B -q --cppcheck-build-dir=bd $T a.c b.c > /dev/null 2>&1
echo 'void fb2(void){}' >> b.c
$B -q --cppcheck-build-dir=bd $T a.c b.c > /dev/null 2>&1
$B -q --cppcheck-build-dir=bd $T b.c > r3 2>&1
$B -q $T b.c > r4 2>&1
echo "with build dir:"; cat r3; echo "fresh:"; cat r4; cmp -s r3 r4; rc=$?; rm -rf $d; exit $rc
