static void hf(void){ int a[2]; a[3]=0; }
