#include "h.h"
void fb(void){ hf(); }
