#!/bin/sh
# $1 = cppcheck binary.  A source file whose name contains a tab: the process executor must report the same file name as a single job.
B=$1; d=$(mktemp -d); printf 'void f(){int a[2]; a[3]=0;}\n' > "$d/$(printf 'a\tb.c')"; printf 'void g(){int a[2]; a[3]=0;}\n' > $d/c.c
O="-q --template={file}:{line}:{id}"
a=$($B $O -j1 $d 2>&1 | sort); b=$($B $O -j2 --executor=process $d 2>&1 | sort)
printf 'single job:\n%s\nprocess executor:\n%s\n' "$a" "$b" | cat -A; rm -rf $d; [ "$a" = "$b" ]
