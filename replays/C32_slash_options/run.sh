#!/bin/sh
# $1 = cppcheck binary.  A GCC-style command whose arguments are absolute paths must not produce definitions, undefinitions or include paths.
B=$1; d=$(mktemp -d); mkdir -p $d/src; printf '#if __STDC_VERSION__ >= 202311L\nint c23;\n#endif\nint x;\n' > $d/src/x.c
cat > $d/compile_commands.json <<EOF
[{"directory":"$d","command":"gcc -c /Users/me/x.c -o /Debug/x.o -MF /Itmp/x.d /std:c23/extra.o","file":"$d/src/x.c"}]
EOF
out=$(cd $d && $B --project=compile_commands.json -v 2>&1; cd $d && $B --project=compile_commands.json -E 2>&1)
echo "$out" | grep -i '^Defines\|^Undefines\|^Includes\|c23'
bad=0
echo "$out" | grep -q '^Defines:ebug' && bad=1
echo "$out" | grep -q '^Undefines:.*sers/me' && bad=1
echo "$out" | grep -q 'tmp/x.d' && bad=1
echo "$out" | grep -q 'int c23' && bad=1
rm -rf $d; exit $bad
