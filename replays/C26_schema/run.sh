#!/bin/sh
# $1 = cppcheck binary, $2 = cppcheck-errors.rng. XML results with a REMARK comment / a debug message must validate.
B=$1; RNG=$2; D=$(cd "$(dirname "$0")" && pwd); t=$(mktemp -d); cp $D/a.c $D/dbg.c $t; cd $t; rc=0
$B -q --xml a.c 2> r1.xml; $B -q --debug-warnings --xml dbg.c 2> r2.xml
xmllint --noout --relaxng $RNG r1.xml r2.xml || rc=1
rm -rf $t; exit $rc
