void f(int *p) {
  int x = *p;
  abc: x++;
  goto abc;
}
struct S { int a; };
void g() { struct S s; s.a = 1; int y = s.a + unknownfn(); (void)y; }
