void f(void) {
    int a[2];
    // REMARK why this is ok
    a[3] = 0;
}
