void f(void) {
  // cppcheck-suppress nullPointer
  int x = 0; (void)x;
}
