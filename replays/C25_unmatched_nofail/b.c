void g(void){int a[2]; a[5]=0;}
