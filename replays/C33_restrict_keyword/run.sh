#!/bin/bash
# run.sh <match-compiled cppcheck> <cppcheck built with -DUSE_MATCHCOMPILER=Off>
# C33 / R33.3: the literal word 'restrict' was typed eKeyword in tools/matchcompiler.py::tokTypes although it is a keyword only in C99+.
# In C++ (and C89) a token `restrict` is a name/variable; the compiled pattern "::|.|const|volatile|restrict" (isConstStatement,
# lib/checkother.cpp) then fails where the interpreted pattern matches.  Exit 1 when the two builds report different findings.
mc=${1:-/repo/_build/bin/cppcheck}; interp=${2:?second argument: a cppcheck built with -DUSE_MATCHCOMPILER=Off}
d=$(mktemp -d); trap 'rm -rf $d' EXIT
cat > $d/r.cpp <<'X'
void f(int restrict, int y, int *p) {
    p[0], restrict * y;
}
X
a=$($mc -q --enable=style --template='{line}:{id}' $d/r.cpp 2>&1 | sort)
b=$($interp -q --enable=style --template='{line}:{id}' $d/r.cpp 2>&1 | sort)
echo "compiled   : $a"; echo "interpreted: $b"
[ "$a" == "$b" ] || { echo "DIFFER"; exit 1; }
exit 0
