#!/bin/sh
# $1 = cppcheck binary.  Every finding of --enable=style must still be reported with --enable=style --inconclusive.
B=$1; d=$(mktemp -d)
cat > $d/t.cpp <<'EOF'
int h(int);
void use(int,int);
void f1(int x){
    int a = x*2;
    int b = x*2;
    a = b;
    use(a,b);
}
EOF
O="-q --enable=style --template={line}:{severity}:{id}"
a=$(cd $d && $B $O t.cpp 2>&1 | sort); b=$(cd $d && $B $O --inconclusive t.cpp 2>&1 | sort)
printf 'style:\n%s\nstyle + inconclusive:\n%s\n' "$a" "$b"; rm -rf $d
for l in $a; do echo "$b" | grep -qxF "$l" || { echo "LOST with --inconclusive: $l"; exit 1; }; done; exit 0
