#include <vector>
#include <algorithm>
void f(std::vector<int>& v, std::vector<int>& w) { std::sort(v.begin(), v.begin()); (void)std::find(v.begin(), w.end(), 1); }
void g(std::vector<int>& v) { std::remove(v.begin(), v.end(), 1); }
struct S { int x; };
S a, b;
void h(int x) { if (x < 1 && x > 3) {} if ((x | 0x10) == 0) {} }
class C { int m; };
