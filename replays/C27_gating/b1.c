#include <stdio.h>
#include <stdlib.h>
struct S { int x : 100; };
void selfa(int *a, int i) { a[i] = a[i]; }
void fc(FILE *fp) { do { } while (fclose(fp) != 0); }
void scan(void) { char buf[10]; scanf("%5s", buf); }
int many(void) {
#ifdef A1
 return 1;
#endif
#ifdef A2
 return 1;
#endif
#ifdef A3
 return 1;
#endif
#ifdef A4
 return 1;
#endif
#ifdef A5
 return 1;
#endif
#ifdef A6
 return 1;
#endif
#ifdef A7
 return 1;
#endif
#ifdef A8
 return 1;
#endif
#ifdef A9
 return 1;
#endif
#ifdef A10
 return 1;
#endif
#ifdef A11
 return 1;
#endif
#ifdef A12
 return 1;
#endif
#ifdef A13
 return 1;
#endif
 return 0;
}
