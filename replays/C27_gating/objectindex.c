int f(int i) { int x = 0; int *p = &x; if (i == 1) {} return p[i]; }
