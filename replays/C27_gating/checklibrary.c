void f(void) { foo(1); }
