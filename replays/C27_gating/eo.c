void g(int,int);
void f(int a) { g(a++, a); }
void h(int x) { int y = -1; int z = y << 2; (void)z; }
void sw(int a, int b) { switch (a) { case 1: b |= 1; case 2: b |= 1; break; } (void)b; }
