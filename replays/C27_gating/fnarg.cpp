#include <cmath>
double invalidFunctionArg_log10(double d = 0.0) {
    return log10(d);
}
