#include <vector>
int main()
{
    std::vector<int> items;
    items.push_back(1);
    items.push_back(2);
    items.push_back(3);
    std::vector<int>::iterator iter;
    for (iter = items.begin(); iter != items.end(); ++iter) {
        if (*iter == 2) {
            items.erase(iter);
        }
    }
}
