void set_flag(bool);
bool g(bool a, bool b) { return a & b; }
