#include <stdio.h>
void f(FILE *fp) { while (fclose(fp)) { } }
void g(void) { FILE *a = fopen("tmp","w"); FILE *b = fopen("tmp","r"); fclose(a); fclose(b); }
