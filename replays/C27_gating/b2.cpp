#include <vector>
#include <string>
#include <algorithm>
#include <cstdlib>
void g(int,int);
void eo(int a) { g(a++, a); }
void neg(bool c) { int x = c ? -1 : 5; int *p = new int[x]; delete [] p; }
void era(std::vector<int>& v, int x) { auto it = v.end(); if (x == 1) {} v.erase(it); }
void deref(std::vector<int>& v) { auto it = std::find(v.begin(), v.end(), 1); if (it == v.end() && *it == 2) {} }
void oob(std::vector<int>& v, int i) { if (v.size() == 2) {} (void)v[i]; if (i == 5) {} std::vector<int> w; (void)w[0]; }
void negidx(std::vector<int>& v, int i) { if (i == -1) {} (void)v[i]; }
int uninit(bool c) { int x; if (c) x = 1; return x; }
void mm(std::vector<int>& v, std::vector<int>& w) { (void)std::equal(v.begin(), v.end(), w.begin() + 1, v.end()); if (v.begin() == w.end()) {} }
struct M { std::string s; };
void moved(M m) { M n = std::move(m); (void)m.s.size(); }
class U { public: U() {} int m; };
class V { int m; public: void f(); };
void bm(int x) { if (x | 0x10) {} }
void pa(char *p, int i) { char buf[10]; char *q = buf + 20; (void)q; }
