#!/bin/sh
# $1 = cppcheck binary.  Three distinct guards (8 combinations <= 12): the region that needs A and C must be analysed in some configuration.
B=$1; d=$(mktemp -d); printf '#ifdef A\n#ifdef B\n#else\n#endif\n#ifdef C\nvoid f(){int a[2];a[5]=0;}\n#endif\n#endif\n' > $d/t.c
out=$(cd $d && $B --template='{line}:{id}' t.c 2>&1); echo "$out"; rm -rf $d
echo "$out" | grep -q '^6:arrayIndexOutOfBounds'
