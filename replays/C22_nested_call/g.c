#include "x.h"
void g(int *p) { *p = 0; }
