void g(int *p);
void f(int *p);
