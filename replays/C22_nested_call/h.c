#include "x.h"
void h(void) { f(0); }
