#include "x.h"
void f(int *p) { g(p); }
