#ifdef A
#endif
#ifdef B
#endif
#ifdef C
#endif
int main(void){return 0;}
