#!/bin/sh
# $1 = cppcheck binary. toomanyconfigs is reported for t.c; the exit status must be the --error-exitcode value whatever file comes last.
D=$(cd "$(dirname "$0")" && pwd); cd $D
$1 -q --check-config --max-configs=2 --error-exitcode=3 t.c u.c > /dev/null 2>&1; a=$?; $1 -q --check-config --max-configs=2 --error-exitcode=3 -j2 t.c u.c > /dev/null 2>&1; b=$?
echo "exit status single job: $a, -j2: $b (expected 3 and 3)"; [ $a -eq 3 ] && [ $b -eq 3 ]
