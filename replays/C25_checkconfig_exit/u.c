int f(void){return 0;}
