#!/bin/sh
# $1 = cppcheck binary.  An addon finding without a location ("loc": []) must be carried by the SARIF output as it is by the text and XML output.
B=$1; d=$(mktemp -d); cd $d
cat > noloc.py <<'EOF'
import sys, json
for a in sys.argv[1:]:
    if a.endswith('.dump') or a.endswith('.ctu-info'):
        pass
print(json.dumps({"loc": [], "errorId": "nolocation", "severity": "warning", "message": "finding without a location", "addon": "noloc"}))
EOF
printf 'int main(void){return 0;}\n' > t.c
t=$($B -q --enable=warning --addon=noloc.py --template='{id}' t.c 2>&1 | grep -c 'noloc-nolocation')
x=$($B -q --enable=warning --addon=noloc.py --xml t.c 2>&1 | grep -c 'id="noloc-nolocation"')
s=$($B -q --enable=warning --addon=noloc.py --output-format=sarif t.c 2>&1 | grep -c '"ruleId": *"noloc-nolocation"')
echo "text=$t xml=$x sarif=$s"; cd /; rm -rf $d; [ "$t" = "$x" ] && [ "$x" = "$s" ]
