import sys
# emits an ill-typed result for every invocation (per-file dump and ctu-info stage)
print('{"file": 1, "linenr": 1, "column": 1, "severity": "error", "message": "m", "addon": "bad", "errorId": "x"}')
