void f(void) {}
