#!/bin/sh
# $1 = cppcheck binary. The findings of b.cpp must not depend on whether a.c is analysed before it in the same single-job run.
B=$1; D=$(cd "$(dirname "$0")" && pwd); T="--template={file}:{line}:{id}:{message}"
cd $D; $B -q --enable=style $T b.cpp 2>&1 | grep '^b.cpp' | sort > /tmp/c17_alone.$$; $B -q --enable=style $T a.c b.cpp 2>&1 | grep '^b.cpp' | sort > /tmp/c17_with.$$
diff /tmp/c17_alone.$$ /tmp/c17_with.$$; rc=$?; rm -f /tmp/c17_alone.$$ /tmp/c17_with.$$; exit $rc
