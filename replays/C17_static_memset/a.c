void f(char *dst, int n) {
    for (int i = 0; i < n; i++) {
        ((char*)dst)[i] = 0;
    }
}
