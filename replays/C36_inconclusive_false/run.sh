#!/bin/sh
# $1 = cppcheck-htmlreport script. The finding must be annotated in the per-file page.
D=$(cd "$(dirname "$0")" && pwd); t=$(mktemp -d); cd $D
python3 $1 --file=r.xml --report-dir=$t --source-dir=. > /dev/null; n=$(grep -c "&lt;--- Null pointer dereference" $t/0.html); echo "annotations: $n"; rm -rf $t; [ "$n" = "1" ]
