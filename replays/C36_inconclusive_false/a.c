int f(int*p){
  return *p;
}
