struct S {
    union { int a; char c; } u;
    int b;
};
void g(struct S);
void f(void) { struct S s; s.u.a = 1; g(s); }
