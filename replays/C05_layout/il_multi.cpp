#include <string>
class A {
public:
    A(int v) {
        s = [&]() {
            return std::string("x");
        }();
    }
    std::string s;
};
