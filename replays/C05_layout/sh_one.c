void f(void) { { int x = 1; (void)x; } int x = 2; (void)x; }
