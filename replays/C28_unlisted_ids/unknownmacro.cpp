struct S { int x; };
void f() { S s = { MACRO1 MACRO2 }; int a[] = { X(1) X(2) }; }
