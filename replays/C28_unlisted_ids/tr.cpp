template <int N> struct A { static const int v = A<N+1>::v; };
int x = A<0>::v;
