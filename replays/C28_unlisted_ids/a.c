int f(int x) { if (x == 2147483647) {} return x + 1; }
