int f(int x){ if(x==1){} if(x==2){} if(x==3){} if(x==4){} if(x==5){} if(x==6){} if(x==7){} if(x==8){} if(x==9){} if(x==10){} return 100/x; }
