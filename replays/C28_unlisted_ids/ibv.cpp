#include <string>
#include <vector>
void cb(std::vector<std::string> v) { for (std::string s : v) { (void)s.size(); } }
void reg(void (*)(std::vector<std::string>));
void h() { reg(cb); }
