int x = 1;
