"""A small abstract interpreter for the constant-ish locals of one function.

Domain: each local variable / parameter maps to a frozenset of abstract constants
(strings, enumerator names, 'true'/'false', ('p', i) for "caller's argument i") or contains
TOP ('?').  Control flow is structured: if/else join by union, branches whose condition
evaluates to exactly {'true'} or {'false'} are pruned (this is what makes listing calls such
as unusedLabelError(nullptr, true, false) evaluate to the one id they list), switch on an
enumerator-valued expression takes only the matching cases, loops are run to a fixpoint
with widening to TOP.

hooks:
  on_call(node, interp)   called for every call / construct expression, in evaluation order,
                          with interp.ev(expr) available for the current environment
  returns                 interp.returns collects the values of return expressions
"""
from .facts import walk, strip, strip_all, call_args, children

TOP = '?'
TRUE = frozenset(['true'])
FALSE = frozenset(['false'])
UNK = frozenset([TOP])


def join_env(a, b):
    if a is None:
        return b
    if b is None:
        return a
    out = {}
    for k in set(a) | set(b):
        va, vb = a.get(k), b.get(k)
        if va is None:
            out[k] = vb
        elif vb is None:
            out[k] = va
        else:
            out[k] = va | vb
    return out


class Interp:
    def __init__(self, F, fn, body, binding=None, on_call=None, ret_eval=None, obj_flags=None, mode='emit', assume=None):
        self.assume = assume or {}
        self.F = F
        self.fn = fn
        self.body = body
        self.on_call = on_call
        self.ret_eval = ret_eval      # callable(fnrec, [argvals]) -> value set, for repo functions returning constants
        self.mode = mode
        self.obj_flags = obj_flags or {}   # param index -> {'condition': bool, 'safe': bool} (listing mode)
        self.pidx = {p['di']: i for i, p in enumerate(fn['params'])}
        self.returns = set()
        self.env = {}
        self.local_flags = {}   # di -> set of Value fields assigned ('condition', 'safe')
        for i, p in enumerate(fn['params']):
            if binding is not None and i < len(binding) and binding[i] is not None:
                self.env[p['di']] = binding[i]
            else:
                self.env[p['di']] = frozenset([('p', i)])

    # ---- expressions ------------------------------------------------------------------------
    def ev(self, n, depth=0):
        n = strip_all(n)
        if n is None or depth > 10:
            return UNK
        k = n.get('k')
        if k == 'StringLiteral':
            return frozenset([n.get('v')])
        if k == 'CXXBoolLiteralExpr':
            return TRUE if n.get('v') else FALSE
        if k == 'CXXNullPtrLiteralExpr' or k == 'GNUNullExpr':
            return frozenset(['null'])
        if k == 'IntegerLiteral':
            return frozenset(['int:' + str(n.get('v'))])
        if k == 'DeclRefExpr':
            dk = n.get('dk')
            if dk == 'EnumConstant':
                return frozenset([n['n']])
            if n.get('g'):
                for v in self.F.vars.get(n['n'], ()):
                    if 'sv' in v:
                        return frozenset([v['sv']])
                return UNK
            di = n.get('di')
            if di in self.env:
                return self.env[di]
            return UNK
        if k == 'ConditionalOperator':
            c = self.truth(n['c'][0])
            if c is True:
                return self.ev(n['c'][1], depth + 1)
            if c is False:
                return self.ev(n['c'][2], depth + 1)
            return self.ev(n['c'][1], depth + 1) | self.ev(n['c'][2], depth + 1)
        if k == 'UnaryOperator' and n.get('op') == '!':
            t = self.truth(n['c'][0])
            return UNK if t is None else (FALSE if t else TRUE)
        if k == 'BinaryOperator' and n.get('op') in ('&&', '||', '==', '!='):
            t = self.truth(n)
            return UNK if t is None else (TRUE if t else FALSE)
        if k in ('CallExpr', 'CXXMemberCallExpr'):
            fn = n.get('fn') or ''
            args = call_args(n)
            if fn == 'Check::getMessageId' and len(args) >= 2:
                out = set()
                flags = self.value_flags(args[0])
                for b in self.ev(args[1], depth + 1):
                    if not isinstance(b, str) or b == TOP:
                        out.add(TOP)
                        continue
                    out.add(b)
                    if flags is None or 'condition' in flags:
                        out.add(b + 'Cond')
                    if flags is None or 'safe' in flags:
                        out.add('safe' + b[:1].upper() + b[1:])
                return frozenset(out)
            if fn.endswith(('::c_str', '::data')) and 'basic_string' in fn and n.get('c'):
                obj = n['c'][0].get('c', [None])[0]
                return self.ev(obj, depth + 1)
            if fn in ('std::move', 'std::forward') and args:
                return self.ev(args[0], depth + 1)
            if self.ret_eval is not None and n.get('fid'):
                for g in self.F.resolve(self.fn, n['fid']):
                    if g['file'].startswith(('lib/', 'cli/')) and g['ret'] in ('std::string', 'const char *', 'const std::string &', 'Severity', 'Certainty') and g['endline'] - g['line'] < 80:
                        r = self.ret_eval(g, [self.ev(a, depth + 1) for a in args])
                        if r is not None:
                            return r
            return UNK
        if k == 'CXXOperatorCallExpr' and n.get('op') == '+':
            cap = self.capitalise_idiom(n)
            if cap is not None:
                return cap
            a = self.ev(n['c'][1], depth + 1)
            b = self.ev(n['c'][2], depth + 1)
            return concat(a, b)
        if k in ('CXXConstructExpr', 'CXXTemporaryObjectExpr', 'CXXFunctionalCastExpr', 'CXXStaticCastExpr', 'CStyleCastExpr'):
            args = [a for a in n.get('c', ()) if a.get('k') != 'DefaultArg']
            if len(args) == 1:
                return self.ev(args[0], depth + 1)
            if not args and n.get('cls') == 'std::basic_string':
                return frozenset([''])
        return UNK

    def capitalise_idiom(self, n):
        """char(std::toupper(s[0])) + s.substr(1)  ->  capitalised values of s."""
        lhs, rhs = n['c'][1], n['c'][2]
        var = None
        for x in walk(lhs):
            if x.get('k') == 'CallExpr' and (x.get('fn') or '') in ('toupper', 'std::toupper'):
                for y in walk(x):
                    if y.get('k') == 'CXXOperatorCallExpr' and y.get('op') == '[]':
                        o = strip(y['c'][1])
                        idx = strip(y['c'][2])
                        if o.get('k') == 'DeclRefExpr' and idx.get('k') == 'IntegerLiteral' and idx.get('v') == '0':
                            var = o
        if var is None:
            return None
        r = strip_all(rhs)
        if r.get('k') != 'CXXMemberCallExpr' or not (r.get('fn') or '').endswith('::substr'):
            return None
        obj = strip(r['c'][0]['c'][0]) if r['c'][0].get('c') else None
        a = [strip(x) for x in call_args(r) if x.get('k') != 'DefaultArg']
        if obj is None or obj.get('di') != var.get('di') or len(a) != 1 or a[0].get('v') != '1':
            return None
        vals = self.ev(var)
        if TOP in vals or any(isinstance(v, tuple) for v in vals):
            return UNK
        return frozenset(v[:1].upper() + v[1:] for v in vals)

    def value_flags(self, n):
        """For a ValueFlow::Value argument in listing mode: the set of flag fields that may be set
        (None = unknown -> all variants)."""
        if self.mode != 'list':
            return None
        n = strip_all(n)
        if n is None:
            return None
        if n.get('k') == 'UnaryOperator' and n.get('op') in ('*', '&') and n.get('c'):
            return self.value_flags(n['c'][0])
        if n.get('k') == 'DeclRefExpr' and n.get('di'):
            di = n['di']
            if di in self.pidx:
                fl = self.obj_flags.get(self.pidx[di])
                return fl
            return self.local_flags.get(di, set()) if di in self.local_decls() else None
        if n.get('k') in ('CXXConstructExpr', 'CXXTemporaryObjectExpr', 'CXXFunctionalCastExpr'):
            return set()
        return None

    def local_decls(self):
        if not hasattr(self, '_ld'):
            self._ld = {x['di'] for x in walk(self.body) if x.get('k') == 'VarDecl' and x.get('di')}
        return self._ld

    def truth(self, n):
        """True / False / None(unknown)."""
        n = strip(n)
        if n is None:
            return None
        k = n.get('k')
        if self.assume:
            sg = pure_sig(n)
            if sg is not None and sg in self.assume:
                return self.assume[sg]
        if k == 'UnaryOperator' and n.get('op') == '!':
            t = self.truth(n['c'][0])
            return None if t is None else (not t)
        if k == 'BinaryOperator' and n.get('op') == '&&':
            a, b = self.truth(n['c'][0]), self.truth(n['c'][1])
            if a is False or b is False:
                return False
            if a is True and b is True:
                return True
            return None
        if k == 'BinaryOperator' and n.get('op') == '||':
            a, b = self.truth(n['c'][0]), self.truth(n['c'][1])
            if a is True or b is True:
                return True
            if a is False and b is False:
                return False
            return None
        if k == 'BinaryOperator' and n.get('op') in ('==', '!='):
            a, b = self.ev(n['c'][0]), self.ev(n['c'][1])
            if len(a) == 1 and len(b) == 1 and TOP not in a | b and not any(isinstance(x, tuple) for x in a | b):
                eq = (a == b)
                return eq if n['op'] == '==' else not eq
            return None
        v = self.ev(n)
        if v == TRUE:
            return True
        if v == FALSE or v == frozenset(['null']) or v == frozenset(['int:0']):
            return False
        return None

    # ---- statements ---------------------------------------------------------------------------
    def visit_expr(self, n):
        """Evaluate side effects of an expression (assignments to tracked locals, hooks for calls)."""
        if n is None:
            return
        k = n.get('k')
        if k == 'LambdaExpr':
            # the body may run any number of times later: interpret it in the current environment
            # (parameters unknown) and join its effects on captured locals
            for c in n.get('c', ()):
                self.visit_expr(c)
            saved = dict(self.env)
            saved_ret = set(self.returns)
            for p in n.get('params', ()):
                self.env[p['di']] = UNK
            self.stmt(n.get('body'))
            self.returns = saved_ret
            self.env = join_env(saved, self.env)
            return
        if k == 'BinaryOperator' and n.get('op') in ('&&', '||'):
            self.visit_expr(n['c'][0])
            t = self.truth(n['c'][0])
            if (n['op'] == '&&' and t is False) or (n['op'] == '||' and t is True):
                return
            saved = dict(self.env)
            self.visit_expr(n['c'][1])
            self.env = join_env(saved, self.env)
            return
        if k == 'ConditionalOperator':
            self.visit_expr(n['c'][0])
            t = self.truth(n['c'][0])
            if t is True:
                self.visit_expr(n['c'][1])
            elif t is False:
                self.visit_expr(n['c'][2])
            else:
                saved = dict(self.env)
                self.visit_expr(n['c'][1])
                e1 = self.env
                self.env = dict(saved)
                self.visit_expr(n['c'][2])
                self.env = join_env(e1, self.env)
            return
        for c in children(n):
            self.visit_expr(c)
        if k in ('CallExpr', 'CXXMemberCallExpr', 'CXXConstructExpr', 'CXXTemporaryObjectExpr', 'CXXOperatorCallExpr'):
            if self.on_call is not None and k != 'CXXOperatorCallExpr':
                self.on_call(n, self)
        if k == 'BinaryOperator' and n.get('op') == '=':
            l = strip(n['c'][0])
            if l.get('k') == 'DeclRefExpr' and l.get('di') and not l.get('g'):
                self.env[l['di']] = self.ev(n['c'][1])
            elif l.get('k') == 'MemberExpr' and l.get('n', '').rsplit('::', 1)[-1] in ('condition', 'safe'):
                base = strip(l['c'][0]) if l.get('c') else None
                if base is not None and base.get('k') == 'DeclRefExpr' and base.get('di'):
                    v = self.ev(n['c'][1])
                    if v not in (FALSE, frozenset(['null'])):
                        self.local_flags.setdefault(base['di'], set()).add(l['n'].rsplit('::', 1)[-1])
        elif k == 'CompoundAssignOperator' or (k == 'BinaryOperator' and n.get('op', '').endswith('=') and n['op'] not in ('==', '!=', '<=', '>=', '=')):
            l = strip(n['c'][0])
            if l.get('k') == 'DeclRefExpr' and l.get('di') and not l.get('g'):
                self.env[l['di']] = UNK
        elif k == 'CXXOperatorCallExpr' and n.get('op') in ('=', '+=') and len(n.get('c', ())) > 2:
            l = strip(n['c'][1])
            if l.get('k') == 'DeclRefExpr' and l.get('di') and not l.get('g'):
                if n['op'] == '=':
                    self.env[l['di']] = self.ev(n['c'][2])
                else:
                    self.env[l['di']] = concat(self.env.get(l['di'], UNK), self.ev(n['c'][2]))
        elif k == 'UnaryOperator' and n.get('op') in ('++', '--'):
            l = strip(n['c'][0])
            if l.get('k') == 'DeclRefExpr' and l.get('di'):
                self.env[l['di']] = UNK
        elif k == 'CXXMemberCallExpr' and (n.get('fn') or '').endswith(('::append', '::assign', '::insert', '::clear', '::swap', '::erase', '::replace')):
            callee = n['c'][0]
            obj = strip(callee['c'][0]) if callee.get('c') else None
            if obj is not None and obj.get('k') == 'DeclRefExpr' and obj.get('di'):
                self.env[obj['di']] = UNK

    def stmt(self, n):
        """Returns False when control cannot fall through."""
        if n is None:
            return True
        k = n.get('k')
        if k == 'CompoundStmt':
            for c in n.get('c', ()):
                if not self.stmt(c):
                    return False
            return True
        if k == 'DeclStmt':
            for d in n.get('decls', ()):
                if d.get('init') is not None:
                    self.visit_expr(d['init'])
                    self.env[d['di']] = self.ev(d['init'])
                else:
                    t = (d.get('t') or '').replace('const ', '')
                    self.env[d['di']] = frozenset(['']) if t == 'std::string' else UNK
            return True
        if k == 'IfStmt':
            if n.get('init'):
                self.stmt(n['init'])
            if n.get('condvar'):
                self.stmt(n['condvar'])
            self.visit_expr(n.get('cond'))
            t = self.truth(n.get('cond'))
            if t is True:
                return self.stmt(n.get('then'))
            if t is False:
                return self.stmt(n.get('else'))
            saved = dict(self.env)
            f1 = self.stmt(n.get('then'))
            e1 = self.env if f1 else None
            self.env = dict(saved)
            f2 = self.stmt(n.get('else'))
            e2 = self.env if f2 else None
            if e1 is None and e2 is None:
                return False
            self.env = join_env(e1, e2)
            return True
        if k in ('WhileStmt', 'ForStmt', 'CXXForRangeStmt', 'DoStmt'):
            if k == 'ForStmt' and n.get('init'):
                self.stmt(n['init'])
            if k == 'CXXForRangeStmt':
                self.visit_expr(n.get('range'))
                if n.get('var'):
                    self.env[n['var']['di']] = UNK
            entry = dict(self.env)
            for it in range(3):
                before = dict(self.env)
                if n.get('condvar'):
                    self.stmt(n['condvar'])
                self.visit_expr(n.get('cond'))
                self.stmt(n.get('body'))
                if n.get('inc'):
                    self.visit_expr(n['inc'])
                self.env = join_env(before, self.env)
                if self.env == before:
                    break
                if it == 1:
                    for kk in self.env:
                        if self.env[kk] != before.get(kk):
                            self.env[kk] = UNK
            self.env = join_env(entry, self.env)
            return True
        if k == 'SwitchStmt':
            if n.get('init'):
                self.stmt(n['init'])
            self.visit_expr(n.get('cond'))
            sel = self.ev(n.get('cond'))
            known = None
            if TOP not in sel and all(isinstance(x, str) for x in sel):
                known = set(sel)
            body = n.get('body')
            items = body.get('c', []) if body and body.get('k') == 'CompoundStmt' else ([body] if body else [])
            head = dict(self.env)
            outs = []
            cur = None
            has_default = False
            for c in items:
                x = c
                active = False
                is_label = False
                while x is not None and x.get('k') in ('CaseStmt', 'DefaultStmt'):
                    is_label = True
                    if x['k'] == 'DefaultStmt':
                        has_default = True
                        active = True
                    else:
                        lab = self.ev(x.get('val'))
                        if known is None or (lab & known) or TOP in lab:
                            active = True
                    x = x.get('sub')
                if is_label and active:
                    cur = join_env(cur, dict(head))
                if x is None or cur is None:
                    continue
                self.env = cur
                # break inside a switch: treat as end of this arm
                ft = self.stmt_switch_arm(x)
                if ft == 'break':
                    outs.append(self.env)
                    cur = None
                elif ft is False:
                    cur = None
                else:
                    cur = self.env
            if cur is not None:
                outs.append(cur)
            if not has_default or known is not None:
                outs.append(head)
            if not outs:
                return False
            e = None
            for o in outs:
                e = join_env(e, o)
            self.env = e
            return True
        if k == 'ReturnStmt':
            for c in n.get('c', ()):
                self.visit_expr(c)
                self.returns |= set(self.ev(c))
            return False
        if k in ('BreakStmt', 'ContinueStmt'):
            return True   # loops are handled by join; switch arms see 'break' in stmt_switch_arm
        if k == 'CXXTryStmt':
            cs = n.get('c', [])
            saved = dict(self.env)
            ft = self.stmt(cs[0]) if cs else True
            e = self.env if ft else None
            for h in cs[1:]:
                self.env = join_env(dict(saved), self.env)
                fh = self.stmt(h['c'][0] if h.get('c') else None)
                if fh:
                    e = join_env(e, self.env)
            if e is None:
                return False
            self.env = e
            return True
        if k in ('CaseStmt', 'DefaultStmt'):
            return self.stmt(n.get('sub'))
        if k in ('LabelStmt', 'AttributedStmt'):
            return self.stmt(n['c'][0] if n.get('c') else None)
        if k in ('NullStmt', 'GotoStmt'):
            return True
        self.visit_expr(n)
        if k == 'CXXThrowExpr':
            return False
        return True

    def stmt_switch_arm(self, x):
        if x.get('k') == 'BreakStmt':
            return 'break'
        if x.get('k') == 'CompoundStmt':
            for c in x.get('c', ()):
                r = self.stmt_switch_arm(c)
                if r is not True:
                    return r
            return True
        return self.stmt(x)

    def run(self):
        self.stmt(self.body)
        return self


def concat(a, b):
    if TOP in a or TOP in b or any(isinstance(x, tuple) for x in a | b) or len(a) * len(b) > 32:
        return UNK
    return frozenset(x + y for x in a for y in b)


def pure_sig(n, _d=0):
    """Signature of a side-effect free condition built from never-reassigned names, member accesses and calls of
    const methods without arguments (var->isArgument(), value.isKnown(), inconclusive, !x); None otherwise."""
    n = strip(n)
    if n is None or _d > 6:
        return None
    k = n.get('k')
    if k == 'DeclRefExpr':
        if n.get('dk') in ('Var', 'ParmVar') and not n.get('g'):
            return 'v:' + str(n.get('di'))
        return None
    if k == 'CXXThisExpr':
        return 'this'
    if k == 'MemberExpr' and n.get('dk') == 'Field':
        b = pure_sig(n['c'][0], _d + 1) if n.get('c') else None
        return None if b is None else b + '.' + n['n']
    if k == 'CXXMemberCallExpr' and (n.get('fid') or '').endswith(' const'):
        args = [a for a in call_args(n) if a.get('k') != 'DefaultArg']
        if args:
            return None
        callee = n['c'][0]
        b = pure_sig(callee['c'][0], _d + 1) if callee.get('c') else None
        return None if b is None else b + '.' + n['fid']
    if k == 'UnaryOperator' and n.get('op') == '!':
        b = pure_sig(n['c'][0], _d + 1)
        return None if b is None else '!' + b
    return None


def condition_leaves(body):
    """Leaf conditions (after &&, ||, ! decomposition) of every if / ?: / loop condition in body."""
    out = []

    def leaves(c):
        c = strip(c)
        if c is None:
            return
        if c.get('k') == 'BinaryOperator' and c.get('op') in ('&&', '||'):
            leaves(c['c'][0])
            leaves(c['c'][1])
        elif c.get('k') == 'UnaryOperator' and c.get('op') == '!':
            leaves(c['c'][0])
        else:
            out.append(c)

    for x in walk(body):
        k = x.get('k')
        if k in ('IfStmt', 'WhileStmt', 'ForStmt', 'DoStmt') and x.get('cond') is not None:
            leaves(x['cond'])
        elif k == 'ConditionalOperator':
            leaves(x['c'][0])
        elif k == 'BinaryOperator' and x.get('op') in ('&&', '||'):
            leaves(x['c'][0])
            leaves(x['c'][1])
    return out


def correlated_conditions(body, limit=4):
    """Pure conditions that are tested at least twice in the function: candidates for case splitting."""
    import collections
    cnt = collections.Counter()
    assigned = set()
    for x in walk(body):
        if x.get('k') == 'BinaryOperator' and x.get('op', '').endswith('=') and x['op'] not in ('==', '!=', '<=', '>='):
            l = strip(x['c'][0])
            if l.get('k') == 'DeclRefExpr' and l.get('di'):
                assigned.add('v:' + str(l['di']))
        if x.get('k') == 'CXXOperatorCallExpr' and x.get('op') in ('=', '+=') and len(x.get('c', ())) > 2:
            l = strip(x['c'][1])
            if l.get('k') == 'DeclRefExpr' and l.get('di'):
                assigned.add('v:' + str(l['di']))
        if x.get('k') == 'UnaryOperator' and x.get('op') in ('++', '--'):
            l = strip(x['c'][0])
            if l.get('k') == 'DeclRefExpr' and l.get('di'):
                assigned.add('v:' + str(l['di']))
    seen_nodes = set()
    for c in condition_leaves(body):
        if id(c) in seen_nodes:
            continue
        seen_nodes.add(id(c))
        sg = pure_sig(c)
        if sg is None:
            continue
        root = sg.lstrip('!').split('.')[0]
        if root in assigned:
            continue
        cnt[sg.lstrip('!')] += 1
    ks = [k for k, v in cnt.items() if v >= 2]
    return sorted(ks)[:limit]
