"""picojson accessor discipline: value::get<T>() must be dominated by value::is<...>() on the same receiver."""
from .facts import walk, strip, AnalysisBroken
from .absint import pure_sig
from . import paths


def expr_sig(n, d=0):
    """Structural signature of an arbitrary expression (same text => same value, absent intervening writes)."""
    n = strip(n)
    if n is None or d > 8:
        return '?'
    k = n.get('k')
    name = n.get('n') or n.get('fn') or n.get('v') or n.get('op') or ''
    if k == 'DeclRefExpr':
        return 'v:%s' % (n.get('di') or n.get('n'))
    from .facts import children
    return '%s(%s)[%s]' % (k, name, ','.join(expr_sig(c, d + 1) for c in children(n)))


def receiver(n):
    if n.get('k') != 'CXXMemberCallExpr' or not n.get('c'):
        return None
    callee = n['c'][0]
    return strip(callee['c'][0]) if callee.get('c') else None


def unguarded_gets(F, fn):
    """[(node, receiver signature)] of picojson::value::get calls in fn that are not dominated by is<>() on the same receiver.
    Receivers that are results of other calls (temporaries) are compared by their source text signature when pure."""
    b = F.body(fn)
    if b is None:
        return [], 0
    body = b['body']

    def sig(n):
        r = receiver(n)
        if r is None:
            return None
        s = pure_sig(r)
        if s is None and r.get('k') == 'CXXOperatorCallExpr' and r.get('op') == '[]':
            # obj["key"]: receiver is the element; use object + literal key
            o = pure_sig(strip(r['c'][1])) if len(r.get('c', ())) > 1 else None
            keyn = strip(r['c'][2]) if len(r.get('c', ())) > 2 else None
            lit = [y.get('v') for y in walk(keyn)] if keyn else []
            lit = [x for x in lit if isinstance(x, str)]
            if o and lit:
                s = o + '[' + lit[0] + ']'
        if s is None:
            s = expr_sig(r)
        return s

    def cond(n, truth):
        n = strip(n)
        if n is not None and n.get('k') == 'CXXMemberCallExpr' and (n.get('fn') or '') == 'picojson::value::is':
            s = sig(n)
            if s and truth:
                return (('is', s),)
        return ()

    def observe(n):
        return n.get('k') == 'CXXMemberCallExpr' and (n.get('fn') or '') == 'picojson::value::get'

    try:
        res = paths.analyse(body, cond=cond, observe=observe)
    except AnalysisBroken:
        return [(None, 'goto')], 0
    out = []
    total = 0
    for i, st in res.at.items():
        n = res.at_node[i]
        total += 1
        s = sig(n)
        if s is None or ('is', s) not in st:
            out.append((n, s))
    return out, total
