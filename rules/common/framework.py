"""Check context: obligations, known findings, evidence, exit protocol, mutant self-validation."""
import glob
import hashlib
import importlib
import json
import os
import re
import shutil
import subprocess
import sys
import tempfile
import time
import traceback

from .facts import AnalysisBroken, Facts

VERIF = os.path.dirname(os.path.dirname(os.path.dirname(os.path.abspath(__file__))))
COPY_DIRS = ['lib', 'cli', 'frontend', 'externals', 'platforms', 'addons', 'htmlreport', 'cfg']
COPY_FILES = ['cppcheck-errors.rng', 'tools/matchcompiler.py']


def load_known():
    p = os.path.join(VERIF, 'known_findings.json')
    if not os.path.exists(p):
        return {'findings': [], 'fixed': []}
    with open(p) as f:
        return json.load(f)


class Ctx:
    def __init__(self, prop, tier='quick', root='/repo', quiet=False, factsdir=None):
        self.factsdir = factsdir
        self.prop = prop
        self.tier = tier
        self.root = os.path.abspath(root)
        self.quiet = quiet
        self.seed = int(os.environ.get('VERIF_SEED', '0') or 0)
        self.t0 = time.time()
        self.obls = []          # dicts: rule,key,ok,what,where,detail
        self.notes = []         # informational lines for evidence
        self.counts = {}
        self.assumptions = []
        self.rules = {}         # rule -> description
        self._facts = None
        self.mutants = []

    # ---- facts --------------------------------------------------------------------------------
    @property
    def facts(self):
        if self._facts is None:
            self._facts = Facts(self.root, self.factsdir)
            self.counts['units_parsed'] = len(self._facts.units)
            self.counts['functions_in_program'] = self._facts.nfuncs
        return self._facts

    def path(self, rel):
        return os.path.join(self.root, rel)

    def read(self, rel):
        p = self.path(rel)
        if not os.path.exists(p):
            raise AnalysisBroken('anchor file missing: ' + rel)
        with open(p, encoding='utf-8', errors='replace') as f:
            return f.read()

    # ---- obligations ----------------------------------------------------------------------------
    def rule(self, rid, text):
        self.rules[rid] = text

    def ob(self, rule, key, ok, what, where='', detail=None):
        """Record one rule instance. key is symbol-level and stable (never a line number)."""
        self.obls.append({'rule': rule, 'key': '%s:%s' % (self.prop, key), 'ok': bool(ok), 'what': what,
                          'where': where, 'detail': detail})
        return ok

    def floor(self, what, count, minimum):
        self.counts[what] = count
        if count < minimum:
            raise AnalysisBroken('%s: %d instances found, at least %d were confirmed by hand on the pinned tree '
                                 '(the rule no longer sees the code it is about)' % (what, count, minimum))

    def note(self, s):
        self.notes.append(s)

    def assume(self, s):
        self.assumptions.append(s)

    def broken(self, why):
        raise AnalysisBroken(why)

    # ---- finishing --------------------------------------------------------------------------------
    def failing(self):
        return [o for o in self.obls if not o['ok']]

    def finish(self, write_evidence=True):
        known = load_known()
        open_keys = {k['key']: k for k in known.get('findings', []) if k.get('property') == self.prop}
        viol, kf = [], []
        seen = set()
        for o in self.failing():
            if o['key'] in seen:
                continue
            seen.add(o['key'])
            if o['key'] in open_keys:
                kf.append(o)
            else:
                viol.append(o)
        stale = [k for k in open_keys if k not in seen]
        rc = 0
        lines = []
        for o in kf:
            lines.append('KNOWN-FINDING: property=%s %s [%s] %s' % (self.prop, o['key'], o['where'], o['what']))
        repdir = os.path.join(VERIF, 'reports', self.prop)
        if viol:
            os.makedirs(repdir, exist_ok=True)
        for o in viol:
            name = re.sub(r'[^A-Za-z0-9_.-]+', '_', o['key'])[:150] + '.json'
            p = os.path.join(repdir, name)
            with open(p, 'w') as f:
                json.dump({'property': self.prop, 'rule': o['rule'], 'rule_text': self.rules.get(o['rule'], ''),
                           'key': o['key'], 'where': o['where'], 'what': o['what'], 'detail': o['detail'],
                           'root': self.root}, f, indent=1)
            lines.append('VIOLATION property=%s replay=%s' % (self.prop, p))
            lines.append('  rule %s at %s: %s' % (o['rule'], o['where'], o['what']))
            rc = 1
        for k in stale:
            lines.append('NOTE: known finding %s no longer fails on this tree (entry can become "fixed")' % k)
        if not self.quiet:
            for l in lines:
                print(l)
        if write_evidence:
            self.write_evidence(len(viol), len(kf))
        if not self.quiet:
            n = len(self.obls)
            print('%s %s: %d rule instances, %d hold, %d known findings, %d violations, %.1fs'
                  % (self.prop, self.tier, n, n - len(self.failing()), len(kf), len(viol), time.time() - self.t0))
        return rc, viol, kf

    def write_evidence(self, nviol, nknown):
        obls = self.obls
        by_rule = {}
        for o in obls:
            r = by_rule.setdefault(o['rule'], {'instances': 0, 'hold': 0, 'fail': 0})
            r['instances'] += 1
            r['hold' if o['ok'] else 'fail'] += 1
        distinct = len({o['key'] for o in obls})
        samples = []
        seen_rules = set()
        for o in obls:
            if o['rule'] not in seen_rules or (not o['ok'] and len(samples) < 12):
                seen_rules.add(o['rule'])
                samples.append({'rule': o['rule'], 'key': o['key'], 'where': o['where'], 'holds': o['ok'], 'what': o['what']})
        ev = {
            'property_id': self.prop,
            'tier': self.tier,
            'seed': self.seed,
            'level': 'other',
            'coverage': {
                'explanation': 'Static analysis of the current /repo working tree (clang AST facts from tools/cppfacts '
                               'over all translation units, plus Python ast / XML parsing of shipped scripts and data). '
                               'Each rule instance is one source construct the rule quantifies over; it either '
                               'satisfies the structural condition or is reported with file:line. Rules: '
                               + ' | '.join('%s: %s' % kv for kv in sorted(self.rules.items())),
                'obligations': len(obls),
                'discharged': len(obls) - len(self.failing()),
                'evaluations': max(1, len(obls)),
                'distinct_nontrivial': distinct,
                'rule': 'one evaluation = one rule instance (a source construct matched by a rule); distinct = distinct '
                        'symbol-level keys; every instance is non-trivial in that the rule had to inspect its body/guards',
                'samples': samples[:14],
                'per_rule': by_rule,
                'counts': self.counts,
                'notes': self.notes[:60],
                'known_findings_hit': nknown,
                'mutants': self.mutants,
                'exhaustive': True,
                'root': self.root,
            },
            'assumptions': self.assumptions or ['clang 14 front end resolves names/types/overloads as the real build does '
                                                '(same -std/-D/-I flags; original sources, not the match-compiled copies)'],
            'wall_s': round(time.time() - self.t0, 2),
            'violations': nviol,
        }
        d = os.path.join(VERIF, 'evidence')
        os.makedirs(d, exist_ok=True)
        with open(os.path.join(d, self.prop + '.json'), 'w') as f:
            json.dump(ev, f, indent=1, sort_keys=True)
            f.write('\n')


# ---- scratch copies for mutant self-validation ---------------------------------------------------

def scratch_copy(root='/repo'):
    base = os.environ.get('XDG_RUNTIME_DIR') or tempfile.gettempdir()
    d = tempfile.mkdtemp(prefix='verif_scratch_', dir=base if os.path.isdir(base) else None)
    for sub in COPY_DIRS:
        src = os.path.join(root, sub)
        if os.path.isdir(src):
            shutil.copytree(src, os.path.join(d, sub), symlinks=True)
    for f in COPY_FILES:
        if os.path.exists(os.path.join(root, f)):
            os.makedirs(os.path.dirname(os.path.join(d, f)), exist_ok=True)
            shutil.copy(os.path.join(root, f), os.path.join(d, f))
    return d


def apply_patch(dirpath, patch):
    """Applies the parts of `patch` that touch analysed sources (files outside COPY_DIRS, e.g. test/, are
    not part of the scratch copy and are dropped)."""
    secs, cur = [], None
    with open(patch) as f:
        for line in f:
            if line.startswith('diff --git ') or (line.startswith('--- ') and (cur is None or cur['plus'])):
                cur = {'lines': [], 'plus': None}
                secs.append(cur)
            if cur is None:
                continue
            cur['lines'].append(line)
            if line.startswith('+++ ') and cur['plus'] is None:
                t = line[4:].split('\t')[0].strip()
                cur['plus'] = t[2:] if t.startswith('b/') else t
    keep = [c for c in secs if c['plus'] and (c['plus'].split('/')[0] in COPY_DIRS or c['plus'] in COPY_FILES)]
    if not keep:
        return False, 'no hunk touches an analysed directory'
    text = ''.join(''.join(c['lines']) for c in keep)
    r = subprocess.run(['patch', '-p1', '-s', '-f', '--no-backup-if-mismatch', '-d', dirpath],
                       input=text, stdout=subprocess.PIPE, stderr=subprocess.STDOUT, text=True)
    return r.returncode == 0, r.stdout


def touched_files(patch):
    out = []
    with open(patch) as f:
        for line in f:
            if line.startswith('+++ '):
                t = line[4:].split('\t')[0].strip()
                if t.startswith('b/'):
                    t = t[2:]
                out.append(t)
    return out


def incremental_facts(ctx, scratch, patch):
    """Facts for a patched scratch copy.  When the patch touches only translation units (no header),
    only those units are re-extracted on top of a copy of the base facts; otherwise a full extraction
    happens (return None -> Facts extracts into the cache keyed by the scratch tree's fingerprint)."""
    from . import extract as ex
    files = touched_files(patch)
    cpp = [f for f in files if f.endswith('.cpp') and f in ex.units(scratch)]
    other = [f for f in files if f.endswith(('.h', '.hpp'))]
    if other or ctx._facts is None:
        if not any(f.endswith(('.cpp', '.h')) for f in files) and ctx._facts is not None:
            return ctx._facts.dir     # patch does not touch C++ at all: the base facts are the facts
        return os.path.join(scratch, '.facts_full')
    base = ctx._facts.dir
    nd = os.path.join(scratch, '.facts')
    shutil.copytree(base, nd)
    for u in cpp:
        uu = u.replace('/', '!')
        for c in os.listdir(os.path.join(nd, 'claims')):
            cp = os.path.join(nd, 'claims', c)
            if open(cp).read().strip() == uu:
                os.unlink(cp)
        for suf in ('.idx.jsonl', '.body.jsonl'):
            try:
                os.unlink(os.path.join(nd, uu + suf))
            except OSError:
                pass
    ex.build_tool()
    for u in cpp:
        r = subprocess.run([ex.BIN, '--out', nd, '--root', scratch, os.path.join(scratch, u), '--'] + ex.flags(scratch),
                           stdout=subprocess.PIPE, stderr=subprocess.STDOUT, text=True)
        if r.returncode != 0 or 'error:' in r.stdout:
            raise AnalysisBroken('mutant %s does not compile: %s' % (patch, r.stdout[-600:]))
    return nd


def run_module(prop, tier, root, quiet=False, write_evidence=True):
    mod = importlib.import_module('rules.' + prop)
    ctx = Ctx(prop, tier, root, quiet=quiet)
    mod.run(ctx)
    return ctx


def self_validate(ctx, mod):
    """Thorough tier: every mutant patch must (a) still parse and (b) make the rule report the
    instance named in the patch header line '# expect: <key-substring>'."""
    pats = sorted(glob.glob(os.path.join(VERIF, 'mutants', ctx.prop, '*.patch')))
    pats += sorted(glob.glob(os.path.join(VERIF, 'seeded', '*', 'patch.diff')))
    base_fail = {o['key'] for o in ctx.failing()}
    for p in pats:
        expect = None
        props = None
        meta = os.path.join(os.path.dirname(p), 'meta.json')
        if p.endswith('patch.diff'):
            if not os.path.exists(meta):
                continue
            m = json.load(open(meta))
            if ctx.prop not in m.get('caught_by', []):
                continue
            expect = m.get('expect_key', {}).get(ctx.prop)
        else:
            with open(p) as f:
                for line in f:
                    if line.startswith('# expect:'):
                        expect = line.split(':', 1)[1].strip()
        d = scratch_copy(ctx.root)
        try:
            ok, out = apply_patch(d, p)
            if not ok:
                ctx.mutants.append({'patch': os.path.relpath(p, VERIF), 'status': 'does-not-apply', 'detail': out[-300:]})
                raise AnalysisBroken('mutant %s does not apply to the current tree: %s' % (p, out[-300:]))
            try:
                sub = Ctx(ctx.prop, 'quick', d, quiet=True, factsdir=incremental_facts(ctx, d, p))
                mod.run(sub)
                new = [o for o in sub.failing() if o['key'] not in base_fail]
                hit = [o for o in new if (expect is None or expect in o['key'])]
                status = 'caught' if hit else 'MISSED'
                ctx.mutants.append({'patch': os.path.relpath(p, VERIF), 'status': status,
                                    'reported': [o['key'] for o in new][:6]})
            except AnalysisBroken as e:
                ctx.mutants.append({'patch': os.path.relpath(p, VERIF), 'status': 'analysis-broken', 'detail': str(e)[:300]})
                status = 'analysis-broken'
            if status != 'caught':
                raise AnalysisBroken('self-validation: mutant %s -> %s (the rule no longer detects the breakage it was '
                                     'built for)' % (os.path.relpath(p, VERIF), status))
        finally:
            shutil.rmtree(d, ignore_errors=True)
    ctx.counts['mutants_caught'] = sum(1 for m in ctx.mutants if m['status'] == 'caught')


def main(argv):
    import argparse
    ap = argparse.ArgumentParser()
    ap.add_argument('prop')
    ap.add_argument('--tier', default=os.environ.get('VERIF_TIER', 'quick'))
    ap.add_argument('--root', default='/repo')
    ap.add_argument('--replay')
    a = ap.parse_args(argv)
    if a.tier not in ('quick', 'thorough'):
        a.tier = 'quick'
    sys.path.insert(0, VERIF)
    try:
        mod = importlib.import_module('rules.' + a.prop)
    except ImportError as e:
        print('ANALYSIS-BROKEN: no rule module for %s (%s)' % (a.prop, e))
        return 2
    ctx = Ctx(a.prop, a.tier, a.root)
    try:
        mod.run(ctx)
        if a.tier == 'thorough':
            if hasattr(mod, 'thorough'):
                mod.thorough(ctx)
            self_validate(ctx, mod)
        rc, viol, kf = ctx.finish()
        if a.replay:
            rep = json.load(open(a.replay))
            still = [o for o in ctx.failing() if o['key'] == rep['key']]
            print('REPLAY %s: %s' % (rep['key'], 'still fails: ' + still[0]['what'] if still else 'no longer fails'))
        return rc
    except AnalysisBroken as e:
        print('ANALYSIS-BROKEN property=%s: %s' % (a.prop, e))
        return 2
    except SystemExit as e:
        return e.code if isinstance(e.code, int) else 2
    except Exception:
        traceback.print_exc()
        print('ANALYSIS-BROKEN property=%s: internal error in the checker' % a.prop)
        return 2
