"""Loader for cppfacts output + whole-program call graph."""
import collections
import glob
import json
import os

from . import extract as _extract

import re
_BODY_HEAD = re.compile(rb'^\{"id":("(?:[^"\\]|\\.)*"),"file":"(?:[^"\\]|\\.)*","line":(\d+),')

NODE_KEYS = ('init', 'condvar', 'cond', 'then', 'else', 'inc', 'var', 'range', 'body', 'val', 'sub')


class AnalysisBroken(Exception):
    """An anchor vanished / a floor is not met: exit 2, never a pass or a violation."""


def children(n):
    """Child nodes of a compact AST node, in source order."""
    out = []
    for k in NODE_KEYS:
        v = n.get(k)
        if isinstance(v, dict):
            out.append(v)
    for d in n.get('decls', ()):
        out.append(d)
    for c in n.get('c', ()):
        if isinstance(c, dict):
            out.append(c)
    return out


def walk(n, skip_lambda=False):
    """Pre-order traversal."""
    stack = [n]
    while stack:
        x = stack.pop()
        if x is None:
            continue
        yield x
        if skip_lambda and x.get('k') == 'LambdaExpr':
            continue
        ch = children(x)
        stack.extend(reversed(ch))


def walk_parents(n, parents=()):
    """Pre-order traversal yielding (node, tuple_of_ancestors)."""
    yield n, parents
    p2 = parents + (n,)
    for c in children(n):
        yield from walk_parents(c, p2)


def strip(n):
    """Skip implicit casts / default-arg wrappers / temporaries."""
    while n is not None and n.get('k') in ('ImplicitCastExpr', 'DefaultArg', 'CXXFunctionalCastExpr') and n.get('c'):
        if n['k'] == 'CXXFunctionalCastExpr' and n.get('ck') not in ('NoOp', 'ConstructorConversion'):
            break
        n = n['c'][0]
    return n


def strip_all(n):
    """Like strip, but also looks through single-argument std::string constructions."""
    while True:
        n = strip(n)
        if n is not None and n.get('k') in ('CXXConstructExpr', 'CXXTemporaryObjectExpr') and n.get('cls') == 'std::basic_string' and n.get('c'):
            args = [a for a in n['c'] if a.get('k') != 'DefaultArg']
            if len(args) == 1:
                n = args[0]
                continue
        return n


def call_args(n):
    """Arguments of a call-like node (without the callee expression / implicit object)."""
    k = n.get('k')
    c = n.get('c', [])
    if k in ('CXXConstructExpr', 'CXXTemporaryObjectExpr'):
        return c
    if k == 'CXXMemberCallExpr':
        return c[1:]
    if k == 'CXXOperatorCallExpr':
        return c[1:]  # includes the object as first arg for member operators
    if k == 'CallExpr':
        return c[1:]
    return c


def member_call_object(n):
    """Object expression of a CXXMemberCallExpr (or None)."""
    if n.get('k') != 'CXXMemberCallExpr' or not n.get('c'):
        return None
    callee = n['c'][0]
    if callee.get('k') == 'MemberExpr' and callee.get('c'):
        return callee['c'][0]
    return None


def string_value(n):
    n = strip_all(n)
    if n is not None and n.get('k') == 'StringLiteral':
        return n.get('v')
    return None


class Facts:
    def __init__(self, root='/repo', outdir=None):
        self.root = os.path.abspath(root)
        self.dir, self.units, self.extract_s = _extract.extract(self.root, outdir)
        self.fns = collections.defaultdict(list)    # id -> [fn records]
        self.by_name = collections.defaultdict(list)  # qualified name -> [fn records]
        self.recs = {}
        self.rec_list = []
        self.enums = {}
        self.vars = collections.defaultdict(list)
        self._bodies = {}
        for u in self.units:
            p = os.path.join(self.dir, u.replace('/', '!') + '.idx.jsonl')
            if not os.path.exists(p):
                raise AnalysisBroken('no facts for unit ' + u)
            with open(p) as f:
                for line in f:
                    d = json.loads(line)
                    K = d['K']
                    if K == 'fn':
                        self.fns[d['id']].append(d)
                        self.by_name[d['name']].append(d)
                    elif K == 'rec':
                        self.recs.setdefault(d['name'], d)
                        self.rec_list.append(d)
                    elif K == 'enum':
                        self.enums.setdefault(d['name'], d)
                    elif K == 'var':
                        self.vars[d['name']].append(d)
        self.nfuncs = sum(len(v) for v in self.fns.values())
        self._overriders = None
        self._subclasses = None

    # ---- lookup -------------------------------------------------------------------------
    @staticmethod
    def key(fn):
        return fn['id'] + '@' + fn['unit']

    def fn_by_key(self, key):
        i, u = key.rsplit('@', 1)
        for f in self.fns.get(i, ()):
            if f['unit'] == u:
                return f
        return None

    def find(self, name, file=None):
        """All function definitions with this qualified name (optionally in this file)."""
        r = self.by_name.get(name, [])
        if file:
            r = [f for f in r if f['file'] == file]
        return r

    def one(self, name, file=None, nparams=None):
        r = self.find(name, file)
        if nparams is not None:
            r = [f for f in r if len(f['params']) == nparams]
        if len(r) != 1:
            raise AnalysisBroken('anchor %s: expected exactly one definition, found %d' % (name, len(r)))
        return r[0]

    def body(self, fn):
        """Compact AST of a function definition (parsed lazily, one function at a time)."""
        u = fn['unit']
        if u not in self._bodies:
            # index: (id, line) -> (offset, length); the line prefix is {"id":"...","file":"...","line":N,
            idx = {}
            path = os.path.join(self.dir, u + '.body.jsonl')
            with open(path, 'rb') as f:
                data = f.read()
            pos = 0
            n = len(data)
            while pos < n:
                end = data.find(b'\n', pos)
                if end < 0:
                    end = n
                head = data[pos:pos + 4096]
                m = _BODY_HEAD.match(head)
                if m:
                    key = (json.loads(m.group(1).decode('utf-8')), int(m.group(2)))
                    idx.setdefault(key, (pos, end))
                else:
                    d = json.loads(data[pos:end])
                    idx.setdefault((d['id'], d['line']), (pos, end))
                pos = end + 1
            self._bodies[u] = (data, idx, {})
        data, idx, cache = self._bodies[u]
        key = (fn['id'], fn['line'])
        if key in cache:
            return cache[key]
        loc = idx.get(key)
        if loc is None:
            return None
        d = json.loads(data[loc[0]:loc[1]])
        cache[key] = d
        return d

    def all_fns(self):
        for v in self.fns.values():
            for f in v:
                yield f

    # ---- class hierarchy ------------------------------------------------------------------
    def subclasses(self, cls):
        if self._subclasses is None:
            m = collections.defaultdict(set)
            for r in self.recs.values():
                for b in r['bases']:
                    m[b].add(r['name'])
            self._subclasses = m
        out, work = set(), [cls]
        while work:
            c = work.pop()
            for s in self._subclasses.get(c, ()):
                if s not in out:
                    out.add(s)
                    work.append(s)
        return out

    def bases(self, cls):
        out, work = [], [cls]
        while work:
            c = work.pop()
            r = self.recs.get(c)
            if not r:
                continue
            for b in r['bases']:
                if b not in out:
                    out.append(b)
                    work.append(b)
        return out

    def overriders(self, fid):
        """Definitions of methods that (transitively) override method `fid`."""
        if self._overriders is None:
            m = collections.defaultdict(list)
            for f in self.all_fns():
                for o in f.get('overrides', ()):
                    m[o].append(f)
            self._overriders = m
        return self._overriders.get(fid, [])

    # ---- call graph -----------------------------------------------------------------------
    def resolve(self, caller, callee_id, virt=False):
        """Definitions a call may reach."""
        cands = self.fns.get(callee_id, [])
        if len(cands) > 1:
            same = [f for f in cands if f['unit'] == caller['unit']]
            if same:
                cands = same
            else:
                ext = [f for f in cands if not f.get('internal')]
                cands = ext or cands
        out = list(cands)
        if virt:
            out += self.overriders(callee_id)
        return out

    def callees(self, fn, extra_edges=None, all_sites=False):
        """(callee definition, call fact); one edge per callee unless all_sites (then one per call site)."""
        seen = set()
        for c in fn['calls']:
            for g in self.resolve(fn, c['f'], c.get('v', False)):
                k = self.key(g)
                if all_sites:
                    yield g, c
                elif k not in seen:
                    seen.add(k)
                    yield g, c
        if extra_edges:
            for g in extra_edges.get(fn['name'], ()):
                k = self.key(g)
                if k not in seen:
                    seen.add(k)
                    yield g, {'f': g['id'], 'l': fn['line'], 'kd': 'table'}

    def reachable(self, roots, extra_edges=None, stop=None):
        """Closure over call edges. Returns {key: (fn, parent_key, call)}."""
        seen = {}
        work = []
        for r in roots:
            seen[self.key(r)] = (r, None, None)
            work.append(r)
        while work:
            f = work.pop()
            if stop and stop(f):
                continue
            for g, c in self.callees(f, extra_edges):
                k = self.key(g)
                if k not in seen:
                    seen[k] = (g, self.key(f), c)
                    work.append(g)
        return seen

    def chain(self, reach, key):
        """Call chain root -> ... -> key as list of 'name (file:line)'."""
        out = []
        while key is not None:
            fn, parent, call = reach[key]
            out.append('%s (%s:%d)' % (fn['name'], fn['file'], call['l'] if call else fn['line']))
            key = parent
        return list(reversed(out))
