"""Run the cppfacts extractor over the *current* working tree of a cppcheck checkout.

The unit list is globbed on every call, the flags are the ones the real build uses
(see DESIGN.md 2.1).  Results are cached under /verif/.cache/facts/<fingerprint>/ where the
fingerprint is the sha256 of every source/header that can influence the parse, so that the
checks of one `vp check` round share one extraction and any edit invalidates it.
"""
import glob
import hashlib
import os
import shutil
import subprocess
import sys
import time
from concurrent.futures import ThreadPoolExecutor

VERIF = os.path.dirname(os.path.dirname(os.path.dirname(os.path.abspath(__file__))))
CACHE = os.environ.get('VERIF_CACHE', os.path.join(VERIF, '.cache'))
BIN = os.path.join(CACHE, 'bin', 'cppfacts')

UNIT_GLOBS = ['lib/*.cpp', 'cli/*.cpp', 'frontend/*.cpp',
              'externals/simplecpp/simplecpp.cpp', 'externals/tinyxml2/tinyxml2.cpp']
HEADER_GLOBS = ['lib/*.h', 'cli/*.h', 'frontend/*.h', 'externals/*/*.h']


def flags(root):
    return ['-std=c++11', '-DFILESDIR="/usr/local/share/Cppcheck"', '-DHAVE_BOOST', '-DHAVE_EXECINFO_H=1',
            '-UNDEBUG', '-Wno-everything',
            '-I' + root + '/lib', '-I' + root + '/cli', '-I' + root + '/frontend',
            '-I' + root + '/externals/tinyxml2', '-I' + root + '/externals/simplecpp',
            '-I' + root + '/externals/picojson', '-I' + root + '/externals',
            '-I/usr/lib/llvm-14/lib/clang/14.0.6/include']


def units(root):
    out = []
    for g in UNIT_GLOBS:
        out += sorted(glob.glob(os.path.join(root, g)))
    return [os.path.relpath(p, root) for p in out]


def fingerprint(root):
    h = hashlib.sha256()
    files = []
    for g in UNIT_GLOBS + HEADER_GLOBS:
        files += glob.glob(os.path.join(root, g))
    for p in sorted(set(files)):
        h.update(os.path.relpath(p, root).encode())
        with open(p, 'rb') as f:
            h.update(hashlib.sha256(f.read()).digest())
    with open(os.path.join(VERIF, 'tools', 'cppfacts', 'cppfacts.cc'), 'rb') as f:
        h.update(f.read())
    return h.hexdigest()[:24]


def build_tool():
    src = os.path.join(VERIF, 'tools', 'cppfacts', 'cppfacts.cc')
    if os.path.exists(BIN) and os.path.getmtime(BIN) >= os.path.getmtime(src):
        return
    r = subprocess.run(['make', '-s', '-C', os.path.join(VERIF, 'tools', 'cppfacts'), 'OUT=' + os.path.dirname(BIN)],
                       stdout=subprocess.PIPE, stderr=subprocess.STDOUT, text=True)
    if r.returncode != 0:
        sys.stderr.write(r.stdout)
        raise SystemExit(2)


def extract(root='/repo', outdir=None, jobs=16):
    """Returns (dir with facts, list of units, seconds spent (0 when cached))."""
    root = os.path.abspath(root)
    build_tool()
    fp = fingerprint(root)
    if outdir is None:
        outdir = os.path.join(CACHE, 'facts', fp)
    us = units(root)
    done = os.path.join(outdir, 'DONE')
    if os.path.exists(done):
        return outdir, us, 0.0
    # several checks may start at once on a fresh tree: one extracts, the others wait
    import fcntl
    os.makedirs(os.path.dirname(outdir), exist_ok=True)
    lock = open(outdir.rstrip('/') + '.lock', 'w')
    fcntl.flock(lock, fcntl.LOCK_EX)
    try:
        if os.path.exists(done):
            return outdir, us, 0.0
        return _extract_locked(root, outdir, us, jobs, done)
    finally:
        fcntl.flock(lock, fcntl.LOCK_UN)
        lock.close()


def _extract_locked(root, outdir, us, jobs, done):
    t0 = time.time()
    if os.path.isdir(outdir):
        shutil.rmtree(outdir)
    # keep the cache small: drop older extractions of other trees
    parent = os.path.dirname(outdir)
    if os.path.isdir(parent) and parent.endswith('facts'):
        old = sorted((os.path.getmtime(os.path.join(parent, d)), d) for d in os.listdir(parent)
                     if os.path.isdir(os.path.join(parent, d)))
        for mt, d in old[:-6]:
            if time.time() - mt > 3600:
                shutil.rmtree(os.path.join(parent, d), ignore_errors=True)
                try:
                    os.unlink(os.path.join(parent, d + '.lock'))
                except OSError:
                    pass
    os.makedirs(os.path.join(outdir, 'claims'))
    fl = flags(root)

    def run(u):
        r = subprocess.run([BIN, '--out', outdir, '--root', root, os.path.join(root, u), '--'] + fl,
                           stdout=subprocess.PIPE, stderr=subprocess.STDOUT, text=True)
        return u, r.returncode, r.stdout

    bad = []
    with ThreadPoolExecutor(max_workers=jobs) as ex:
        for u, rc, out in ex.map(run, us):
            if rc != 0 or 'error:' in out or 'parse errors' in out:
                bad.append((u, out[-2000:]))
    if bad:
        for u, out in bad:
            sys.stderr.write('ANALYSIS-BROKEN: unit %s does not parse:\n%s\n' % (u, out))
        raise SystemExit(2)
    with open(done, 'w') as f:
        f.write('%d units\n' % len(us))
    return outdir, us, time.time() - t0


if __name__ == '__main__':
    d, us, t = extract(sys.argv[1] if len(sys.argv) > 1 else '/repo')
    print(d, len(us), 'units', '%.1fs' % t)
