"""Static models of hand-written XML writers and tinyxml2 readers.

Writer model: the string-building expressions of a function (ostream `<<` chains, std::string
`+`/`+=`, nested writer calls inlined) flattened to an ordered list of parts
    ('lit', text, optional)            literal markup
    ('dyn', desc, optional, node)      a run-time value; desc classifies it (see classify_dyn)
and parsed into elements  {tag: {'attrs': {name: [parts of the value]}, 'optional': bool}}.

Reader model: which element names a reader dispatches on, and which attributes it reads for
each (through helper functions that forward the attribute name to tinyxml2).
"""
import re

from .facts import walk, walk_parents, children, strip, strip_all, call_args, AnalysisBroken

TINY_ATTR = re.compile(r'^tinyxml2::XMLElement::(Attribute|FindAttribute|Query\w*Attribute|\w+Attribute)$')


# ---- constants ------------------------------------------------------------------------------------

def const_string(F, fnbody, n, _depth=0):
    """String constant denoted by expression n (literal, const char[] global, local const initialised
    from a literal), else None."""
    n = strip_all(n)
    if n is None or _depth > 4:
        return None
    k = n.get('k')
    if k == 'StringLiteral':
        return n.get('v')
    if k == 'CharacterLiteral':
        return chr(n['v']) if isinstance(n.get('v'), int) and 0 < n['v'] < 0x110000 else None
    if k == 'DeclRefExpr':
        if n.get('g'):
            for v in F.vars.get(n['n'], ()):
                if 'sv' in v:
                    return v['sv']
            return None
        di = n.get('di')
        if di and fnbody is not None:
            for x in walk(fnbody):
                if x.get('k') == 'VarDecl' and x.get('di') == di and x.get('init') is not None:
                    t = x.get('t', '')
                    if 'const' in t or True:
                        return const_string(F, fnbody, x['init'], _depth + 1)
    return None


# ---- writer model -----------------------------------------------------------------------------------

SAFE_CALLS = ('ErrorLogger::toxml', 'std::to_string', 'id_string', 'MathLib::toString', 'bool_to_string')


def classify_dyn(n):
    """Short description of a dynamic operand."""
    n0 = strip_all(n)
    if n0 is None:
        return 'other'
    k = n0.get('k')
    t = (n0.get('t') or '').replace('const ', '')
    if k in ('CallExpr', 'CXXMemberCallExpr', 'CXXOperatorCallExpr') and n0.get('fn'):
        return 'call:' + n0['fn']
    if k in ('CXXStaticCastExpr', 'CStyleCastExpr', 'CXXFunctionalCastExpr') and is_arith(t):
        return 'arith'
    if is_arith(t):
        return 'arith'
    if k in ('DeclRefExpr', 'MemberExpr'):
        return 'var:' + n0.get('n', '?')
    return 'other:' + str(k)


ARITH = {'int', 'unsigned int', 'unsigned', 'long', 'unsigned long', 'long long', 'unsigned long long', 'short',
         'unsigned short', 'bool', 'std::size_t', 'size_t', 'double', 'float', 'MathLib::bigint', 'MathLib::biguint',
         'nonneg int', 'std::int64_t', 'int64_t', 'std::uint64_t', 'uint64_t', 'std::uint8_t', 'std::uint32_t',
         'uint32_t', 'std::int32_t', 'int32_t', 'long double', 'std::uint16_t', 'unsigned char', 'signed char',
         'std::intptr_t', 'std::uintptr_t', 'std::ptrdiff_t', 'int16_t', 'std::int16_t', 'nonneg long long',
         'MathLib::bigint', 'ValueFlow::Value::ValueType'}


def is_arith(t):
    t = (t or '').replace('const ', '').replace('volatile ', '').strip()
    if t.endswith('&'):
        t = t[:-1].strip()
    return t in ARITH


def is_string_type(t):
    t = (t or '').replace('const ', '').strip()
    return t in ('std::string', 'std::string &', 'std::basic_string<char>', 'std::string &&')


class Writer:
    """Flattens the markup built by a function."""

    def __init__(self, F, is_writer=None, max_depth=4):
        self.F = F
        self.max_depth = max_depth
        self.is_writer = is_writer or (lambda fn: fn['ret'] in ('std::string', 'const std::string', 'std::string &'))
        self._memo = {}

    def parts_of_function(self, fn, depth=0):
        key = self.F.key(fn)
        if key in self._memo:
            return self._memo[key]
        self._memo[key] = []  # recursion guard
        b = self.F.body(fn)
        parts = []
        if b is not None:
            self._stmt(fn, b['body'], b['body'], parts, False, depth)
        self._memo[key] = parts
        return parts

    def _stmt(self, fn, body, n, parts, opt, depth):
        if n is None:
            return
        k = n.get('k')
        if k == 'CompoundStmt':
            for c in n.get('c', ()):
                self._stmt(fn, body, c, parts, opt, depth)
            return
        if k == 'IfStmt':
            self._stmt(fn, body, n.get('then'), parts, True, depth)
            self._stmt(fn, body, n.get('else'), parts, True, depth)
            return
        if k in ('ForStmt', 'WhileStmt', 'CXXForRangeStmt', 'DoStmt'):
            self._stmt(fn, body, n.get('body'), parts, True, depth)
            return
        if k == 'SwitchStmt':
            self._stmt(fn, body, n.get('body'), parts, True, depth)
            return
        if k in ('CaseStmt', 'DefaultStmt'):
            self._stmt(fn, body, n.get('sub'), parts, True, depth)
            return
        if k == 'CXXTryStmt':
            for c in n.get('c', ()):
                self._stmt(fn, body, c, parts, opt, depth)
            return
        if k == 'CXXCatchStmt':
            for c in n.get('c', ()):
                self._stmt(fn, body, c, parts, True, depth)
            return
        if k == 'DeclStmt':
            for d in n.get('decls', ()):
                if d.get('init') is not None and is_string_type(d.get('t')):
                    i0 = strip_all(d['init'])
                    if i0.get('k') in ('CXXConstructExpr', 'CXXTemporaryObjectExpr') and not [a for a in i0.get('c', ()) if a.get('k') != 'DefaultArg']:
                        continue  # default-constructed accumulator
                    self._expr(fn, body, d['init'], parts, opt, depth)
            return
        if k == 'ReturnStmt':
            for c in n.get('c', ()):
                c0 = strip_all(c)
                if c0.get('k') in ('DeclRefExpr', 'MemberExpr'):
                    continue  # returning the accumulator
                if c0.get('k') == 'CXXMemberCallExpr' and (c0.get('fn') or '').endswith('::str'):
                    continue  # ostringstream::str()
                if is_string_type(c.get('t')) or c0.get('k') == 'StringLiteral':
                    self._expr(fn, body, c, parts, opt, depth)
            return
        self._expr(fn, body, n, parts, opt, depth, top=True)

    def _expr(self, fn, body, n, parts, opt, depth, top=False):
        n = strip(n)
        if n is None:
            return
        k = n.get('k')
        if k == 'CXXOperatorCallExpr' and n.get('op') in ('<<', '+', '+=', '='):
            args = n['c'][1:]
            if len(args) == 2:
                if n['op'] in ('+=', '=') or n['op'] == '<<':
                    lhs = strip(args[0])
                    # stream / accumulator on the left: only descend when it is itself a chain
                    if lhs.get('k') == 'CXXOperatorCallExpr':
                        self._expr(fn, body, lhs, parts, opt, depth)
                    self._expr(fn, body, args[1], parts, opt, depth)
                else:
                    self._expr(fn, body, args[0], parts, opt, depth)
                    self._expr(fn, body, args[1], parts, opt, depth)
                return
        if k == 'ConditionalOperator':
            self._expr(fn, body, n['c'][1], parts, True, depth)
            self._expr(fn, body, n['c'][2], parts, True, depth)
            return
        if k in ('CXXConstructExpr', 'CXXTemporaryObjectExpr') and n.get('cls') == 'std::basic_string':
            args = [a for a in n.get('c', ()) if a.get('k') != 'DefaultArg']
            if len(args) == 1:
                self._expr(fn, body, args[0], parts, opt, depth)
                return
        if k == 'CXXMemberCallExpr' and n.get('fn', '').endswith(('::append', '::push_back')) and 'basic_string' in n.get('fn', ''):
            for a in call_args(n):
                self._expr(fn, body, a, parts, opt, depth)
            return
        cs = const_string(self.F, body, n)
        if cs is not None:
            parts.append(('lit', cs, opt, n))
            return
        if top and k not in ('CallExpr', 'CXXMemberCallExpr'):
            # some other expression statement: look for string building inside (e.g. f(out << ...))
            for c in children(n):
                if c.get('k') in ('CXXOperatorCallExpr',):
                    self._expr(fn, body, c, parts, opt, depth)
            return
        if k in ('CallExpr', 'CXXMemberCallExpr') and n.get('fid'):
            # inline nested writers defined in the repo
            cands = [g for g in self.F.resolve(fn, n['fid'], n.get('virt', False)) if self.is_writer(g)]
            cands = [g for g in cands if g['file'].startswith(('lib/', 'cli/'))]
            if cands and depth < self.max_depth and n.get('fn') not in SAFE_CALLS:
                sub = []
                for g in cands:
                    sub += self.parts_of_function(g, depth + 1)
                if any(p[0] == 'lit' and ('<' in p[1] or '="' in p[1]) for p in sub):
                    for p in sub:
                        parts.append((p[0], p[1], opt or p[2], p[3]))
                    return
            if top:
                return
        if top:
            return
        parts.append(('dyn', classify_dyn(n), opt, n))


TAG_RE = re.compile(r'<([A-Za-z_][\w:.-]*)|([\w:.-]+)=(["\'])|(/?>)|</([A-Za-z_][\w:.-]*)\s*>')


def parse_markup(parts):
    """Returns (elements, problems).  elements: list of dicts {tag, attrs: {name: {'dyn': [desc], 'opt': bool,
    'nodes': [...]}}, opt, text_dyn: [...]} in document order (start tags only)."""
    PH = '\x00'
    text = ''
    dyn = []
    spans = []   # (start, end, part index)
    for i, p in enumerate(parts):
        if p[0] == 'lit':
            spans.append((len(text), len(text) + len(p[1]), i))
            text += p[1]
        else:
            spans.append((len(text), len(text) + 1, i))
            text += PH
            dyn.append(i)

    def part_at(pos):
        for a, b, i in spans:
            if a <= pos < b:
                return parts[i]
        return None

    elements = []
    cur = None
    pos = 0
    n = len(text)
    in_tag = False
    while pos < n:
        ch = text[pos]
        if not in_tag:
            if ch == '<' and pos + 1 < n and (text[pos + 1].isalpha() or text[pos + 1] == '_'):
                m = re.compile(r'<([A-Za-z_][\w:.-]*)').match(text, pos)
                p = part_at(pos)
                cur = {'tag': m.group(1), 'attrs': {}, 'opt': bool(p and p[2]), 'text_dyn': [], 'node': p[3] if p else None}
                elements.append(cur)
                in_tag = True
                pos = m.end()
                continue
            if ch == PH:
                p = part_at(pos)
                if elements:
                    elements[-1]['text_dyn'].append(p)
                else:
                    elements.append({'tag': '#text', 'attrs': {}, 'opt': True, 'text_dyn': [p], 'node': p[3]})
            elif ch == ' ' or (ch.isalpha() and (pos == 0 or text[pos - 1] in ' \n"\x00')):
                # an attribute written outside any start tag of this function: a fragment that the caller places
                # inside its own start tag (e.g. ValueType::dump inside <token ...>)
                m = re.compile(r' ?([A-Za-z_][\w:.-]*)=(["\'])').match(text, pos)
                if m:
                    name, q = m.group(1), m.group(2)
                    end = m.end()
                    vals = []
                    while end < n and text[end] != q:
                        if text[end] == PH:
                            vals.append(part_at(end))
                        end += 1
                    if end < n:
                        orphan = None
                        for e_ in elements:
                            if e_['tag'] == '#orphan':
                                orphan = e_
                        if orphan is None:
                            orphan = {'tag': '#orphan', 'attrs': {}, 'opt': True, 'text_dyn': [], 'node': None}
                            elements.append(orphan)
                        p0 = part_at(pos)
                        orphan['attrs'][name] = {'dyn': vals, 'lit': text[m.end():end].replace(PH, ''), 'opt': True, 'closed': True}
                        pos = end + 1
                        continue
            pos += 1
            continue
        # inside a start tag
        if ch == '>' or (ch == '/' and pos + 1 < n and text[pos + 1] == '>'):
            in_tag = False
            pos += 2 if ch == '/' else 1
            continue
        m = re.compile(r'([\w:.-]+)\s*=\s*(["\'])').match(text, pos)
        if m:
            name, q = m.group(1), m.group(2)
            p0 = part_at(pos)
            end = pos = m.end()
            vals = []
            while end < n and text[end] != q:
                if text[end] == PH:
                    vals.append(part_at(end))
                end += 1
            lit = text[m.end():end].replace(PH, '')
            cur['attrs'][name] = {'dyn': vals, 'lit': lit, 'opt': bool(p0 and p0[2]) , 'closed': end < n}
            pos = end + 1
            continue
        if ch == PH:
            # dynamic text inside a start tag but outside any attribute value: an attribute *name* or raw markup
            p = part_at(pos)
            cur.setdefault('raw_in_tag', []).append(p)
        pos += 1
    return elements


def merge_elements(elements):
    """tag -> {'attrs': {name: {'always': bool}}, 'count': n}"""
    out = {}
    for e in elements:
        if e['tag'] == '#text':
            continue
        d = out.setdefault(e['tag'], {'attrs': {}, 'count': 0, 'variants': []})
        d['count'] += 1
        d['variants'].append(set(e['attrs']))
        for a, v in e['attrs'].items():
            d['attrs'].setdefault(a, {'always': True})
            if v['opt'] and not e['opt']:
                d['attrs'][a]['always'] = False
    return out


# ---- reader model -----------------------------------------------------------------------------------

class Reader:
    def __init__(self, F):
        self.F = F
        self._fwd = {}
        self._memo = {}

    def forwards_attr_param(self, fn):
        """Indices of `const char*` parameters that fn passes as attribute name to tinyxml2."""
        key = self.F.key(fn)
        if key in self._fwd:
            return self._fwd[key]
        self._fwd[key] = set()
        b = self.F.body(fn)
        out = set()
        if b is not None:
            pdi = {p['di']: i for i, p in enumerate(fn['params'])}
            for x in walk(b['body']):
                if x.get('k') == 'CXXMemberCallExpr' and TINY_ATTR.match(x.get('fn') or ''):
                    args = call_args(x)
                    if args:
                        a = strip(args[0])
                        if a.get('k') == 'DeclRefExpr' and a.get('di') in pdi:
                            out.add(pdi[a['di']])
        self._fwd[key] = out
        return out

    def attr_reads_in(self, fn, body, node):
        """[(attribute name, node)] read directly in subtree `node` (incl. forwarding helpers)."""
        out = []
        for x in walk(node):
            k = x.get('k')
            if k == 'CXXMemberCallExpr' and TINY_ATTR.match(x.get('fn') or ''):
                args = call_args(x)
                if args:
                    s = const_string(self.F, body, args[0])
                    if s is not None:
                        out.append((s, x))
            elif k in ('CallExpr', 'CXXMemberCallExpr') and x.get('fid'):
                for g in self.F.resolve(fn, x['fid']):
                    if not g['file'].startswith(('lib/', 'cli/')):
                        continue
                    idxs = self.forwards_attr_param(g)
                    args = call_args(x)
                    for i in idxs:
                        if i < len(args):
                            s = const_string(self.F, body, args[i])
                            if s is not None:
                                out.append((s, x))
        return out

    def name_compare(self, fn, body, n):
        """If n compares an element name with a string constant returns (tag, sense) where sense is True
        when the expression is true for a *matching* name."""
        n = strip(n)
        if n is None:
            return None
        k = n.get('k')
        if k == 'UnaryOperator' and n.get('op') == '!':
            r = self.name_compare(fn, body, n['c'][0])
            if r:
                # !strcmp(a,b) : strcmp handled below returns sense for "== 0"
                return (r[0], not r[1])
            return None
        if k == 'BinaryOperator' and n.get('op') in ('==', '!='):
            a, b = strip(n['c'][0]), strip(n['c'][1])
            for x, y in ((a, b), (b, a)):
                if x.get('k') in ('CallExpr',) and x.get('fn') in ('strcmp', 'std::strcmp') and y.get('k') == 'IntegerLiteral' and y.get('v') == '0':
                    args = call_args(x)
                    tag = None
                    isname = False
                    for arg in args:
                        s = const_string(self.F, body, arg)
                        if s is not None:
                            tag = s
                        elif self.is_name_expr(body, arg):
                            isname = True
                    if tag is not None and isname:
                        return (tag, n['op'] == '==')
            return None
        if k == 'CallExpr' and n.get('fn') in ('strcmp', 'std::strcmp'):
            # bare strcmp(...) used as condition: true when names differ
            args = call_args(n)
            tag, isname = None, False
            for arg in args:
                s = const_string(self.F, body, arg)
                if s is not None:
                    tag = s
                elif self.is_name_expr(body, arg):
                    isname = True
            if tag is not None and isname:
                return (tag, False)
            return None
        if k == 'CXXOperatorCallExpr' and n.get('op') in ('==', '!='):
            args = n['c'][1:]
            tag, isname = None, False
            for arg in args:
                s = const_string(self.F, body, arg)
                if s is not None:
                    tag = s
                elif self.is_name_expr(body, arg):
                    isname = True
            if tag is not None and isname:
                return (tag, n['op'] == '==')
        return None

    def is_name_expr(self, body, n, _d=0):
        n = strip_all(n)
        if n is None or _d > 3:
            return False
        if n.get('k') == 'CXXMemberCallExpr' and (n.get('fn') or '').endswith(('XMLElement::Name', 'XMLNode::Value')):
            return True
        if n.get('k') == 'DeclRefExpr' and n.get('di'):
            for x in walk(body):
                if x.get('k') == 'VarDecl' and x.get('di') == n['di'] and x.get('init') is not None:
                    return self.is_name_expr(body, x['init'], _d + 1)
        return False

    def model(self, fn, _stack=()):
        """Returns {'outside': set(attr), 'tags': {tag: set(attr)}} for reader function fn (transitive)."""
        key = self.F.key(fn)
        if key in self._memo:
            return self._memo[key]
        if key in _stack:
            return {'outside': set(), 'tags': {}}
        b = self.F.body(fn)
        res = {'outside': set(), 'tags': {}}
        if b is None:
            return res
        body = b['body']
        scopes = []   # (tag, [nodes])
        self._find_scopes(fn, body, body, scopes)
        in_scope = {}
        for tag, nodes in scopes:
            res['tags'].setdefault(tag, set())
            for nd in nodes:
                for x in walk(nd):
                    in_scope[id(x)] = tag
        # direct attribute reads
        for name, node in self.attr_reads_in(fn, body, body):
            t = in_scope.get(id(node))
            if t is None:
                res['outside'].add(name)
            else:
                res['tags'][t].add(name)
        # callees that take an XMLElement: merge
        for x in walk(body):
            if x.get('k') in ('CallExpr', 'CXXMemberCallExpr') and x.get('fid'):
                for g in self.F.resolve(fn, x['fid'], x.get('virt', False)):
                    if not g['file'].startswith(('lib/', 'cli/')):
                        continue
                    if not any(re.match(r'^(const )?tinyxml2::XML(Element|Node) \*', p['t']) for p in g['params']):
                        continue
                    if self.forwards_attr_param(g):
                        continue  # pure attribute helper, already handled
                    sub = self.model(g, _stack + (key,))
                    t = in_scope.get(id(x))
                    if t is None:
                        res['outside'] |= sub['outside']
                    else:
                        res['tags'][t] |= sub['outside']
                    for tg, at in sub['tags'].items():
                        res['tags'].setdefault(tg, set()).update(at)
        self._memo[key] = res
        return res

    def _find_scopes(self, fn, body, n, scopes):
        """Tag scopes: then-branch of a matching compare; or the statements following
        `if (name differs) continue/return/break;` in the same block."""
        if n is None:
            return
        k = n.get('k')
        if k == 'CompoundStmt':
            cs = n.get('c', [])
            for i, c in enumerate(cs):
                if c.get('k') == 'IfStmt':
                    r = self.name_compare(fn, body, c.get('cond'))
                    if r and not r[1] and self._exits(c.get('then')):
                        scopes.append((r[0], cs[i + 1:]))
                self._find_scopes(fn, body, c, scopes)
            return
        if k == 'IfStmt':
            r = self.name_compare(fn, body, n.get('cond'))
            if r and r[1] and n.get('then') is not None:
                scopes.append((r[0], [n['then']]))
            elif r and not r[1] and n.get('else') is not None:
                scopes.append((r[0], [n['else']]))
            self._find_scopes(fn, body, n.get('then'), scopes)
            self._find_scopes(fn, body, n.get('else'), scopes)
            return
        if k == 'LambdaExpr':
            self._find_scopes(fn, body, n.get('body'), scopes)
            return
        for c in children(n):
            self._find_scopes(fn, body, c, scopes)

    @staticmethod
    def _exits(n):
        if n is None:
            return False
        if n.get('k') in ('ContinueStmt', 'ReturnStmt', 'BreakStmt'):
            return True
        if n.get('k') == 'CompoundStmt' and n.get('c'):
            return Reader._exits(n['c'][-1])
        return False
