"""May-throw effect analysis over the whole-program call graph (explicit throw expressions, the std::sto*
family as pseudo-throws, handler matching with the class hierarchy)."""
import collections

from .facts import walk, AnalysisBroken

STD_BASES = {
    'std::runtime_error': ['std::exception'],
    'std::logic_error': ['std::exception'],
    'std::invalid_argument': ['std::logic_error', 'std::exception'],
    'std::out_of_range': ['std::logic_error', 'std::exception'],
    'std::length_error': ['std::logic_error', 'std::exception'],
    'std::domain_error': ['std::logic_error', 'std::exception'],
    'std::range_error': ['std::runtime_error', 'std::exception'],
    'std::overflow_error': ['std::runtime_error', 'std::exception'],
    'std::underflow_error': ['std::runtime_error', 'std::exception'],
    'std::system_error': ['std::runtime_error', 'std::exception'],
    'std::ios_base::failure': ['std::system_error', 'std::runtime_error', 'std::exception'],
    'std::bad_alloc': ['std::exception'],
    'std::bad_cast': ['std::exception'],
    'std::bad_function_call': ['std::exception'],
    'std::future_error': ['std::logic_error', 'std::exception'],
    'std::regex_error': ['std::runtime_error', 'std::exception'],
}
PSEUDO = {}
for _n in ('stoi', 'stol', 'stoll', 'stoul', 'stoull', 'stof', 'stod', 'stold'):
    PSEUDO['std::' + _n] = ['std::invalid_argument', 'std::out_of_range']


class Throws:
    def __init__(self, F, scope=('lib/', 'cli/', 'frontend/', 'externals/')):
        self.F = F
        self.scope = scope
        self._bases = {}
        self.escape = {}          # fn key -> {type: (origin description)}
        self._compute()

    def bases(self, t):
        t = t.replace('const ', '').strip()
        if t in self._bases:
            return self._bases[t]
        out = [t]
        if t in STD_BASES:
            out += STD_BASES[t]
        else:
            out += self.F.bases(t)
            for b in list(out):
                out += STD_BASES.get(b, [])
        # simplecpp / short spellings
        self._bases[t] = out
        return out

    def caught(self, t, handlers):
        if not handlers:
            return False
        bs = self.bases(t)
        short = {b.split('::')[-1] for b in bs}
        for h in handlers:
            if h == '...':
                return True
            h0 = h.replace('const ', '').strip()
            if h0 in bs or h0.split('::')[-1] in short and (h0.count('::') == 0 or any(b.endswith(h0) or h0.endswith(b) for b in bs)):
                return True
        return False

    def _local(self, f):
        """{type: origin} thrown directly in f and not caught in f."""
        out = {}
        for t in f['throws']:
            ty = t['t']
            if t.get('re'):
                ty = self._rethrow_type(f, t)
                if ty is None:
                    continue
            if not ty:
                continue
            if not self.caught(ty, t.get('tr', ())):
                out.setdefault(ty, ('throw', f, t['l']))
        for c in f['calls']:
            name = c['f'].split('(')[0]
            if name in PSEUDO:
                for ty in PSEUDO[name]:
                    if not self.caught(ty, c.get('tr', ())):
                        out.setdefault(ty, ('call ' + name, f, c['l']))
        return out

    def _rethrow_type(self, f, t):
        b = self.F.body(f)
        if b is None:
            return None
        # find the catch statement containing a rethrow at this line
        for x in walk(b['body']):
            if x.get('k') == 'CXXCatchStmt':
                for y in walk(x):
                    if y.get('k') == 'CXXThrowExpr' and not y.get('tt') and y.get('l') == t['l']:
                        return None if x.get('ct') == '...' else x.get('ct')
        return None

    def _compute(self):
        F = self.F
        fns = [f for f in F.all_fns() if f['file'].startswith(self.scope)]
        esc = {F.key(f): dict(self._local(f)) for f in fns}
        callers = collections.defaultdict(list)
        for f in fns:
            fk = F.key(f)
            for g, c in F.callees(f, all_sites=True):
                gk = F.key(g)
                if gk in esc:
                    callers[gk].append((fk, c))
        work = [k for k, v in esc.items() if v]
        inwork = set(work)
        byk = {F.key(f): f for f in fns}
        while work:
            gk = work.pop()
            inwork.discard(gk)
            for fk, c in callers.get(gk, ()):
                changed = False
                for ty, origin in esc[gk].items():
                    if ty in esc[fk]:
                        continue
                    if self.caught(ty, c.get('tr', ())):
                        continue
                    esc[fk][ty] = ('via', byk[gk], c['l'], origin)
                    changed = True
                if changed and fk not in inwork:
                    work.append(fk)
                    inwork.add(fk)
        self.escape = esc
        self.byk = byk

    def chain(self, fk, ty, limit=12):
        """Human readable propagation chain for type ty escaping function fk."""
        out = []
        cur = fk
        o = self.escape.get(cur, {}).get(ty)
        f = self.byk.get(cur)
        while o is not None and limit > 0:
            limit -= 1
            if o[0] == 'via':
                out.append('%s (%s:%s) calls %s' % (f['name'], f['file'], o[2], o[1]['name']))
                f = o[1]
                o = self.escape.get(self.F.key(f), {}).get(ty)
            else:
                out.append('%s (%s:%s): %s %s' % (o[1]['name'], o[1]['file'], o[2], o[0], ty))
                break
        return out
