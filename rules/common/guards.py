"""Propositional path conditions over "settings atoms" for cppcheck's check code.

Formulas: ('T',) ('F',) ('a', name) ('!', f) ('&', f, g) ('|', f, g).

Settings atoms (global, 8): sev:warning sev:style sev:performance sev:portability sev:information
cert:inconclusive set:debugwarnings set:daca.  Everything else is a free atom:
  P:<i>          bool parameter i of the enclosing function (substituted at call sites)
  ES:/INC:/KNOWN:<sig>   value->errorSeverity() / isInconclusive() / isKnown() of one value expression
  U:<sig>        other pure condition (same text => same atom)
  X:<line>:<col> anything else (unique per occurrence)
  H:<di>@<line>  a local bool assigned inside a loop, at the loop head
Settings::isPremiumEnabled(...) is the constant False (open-source build; stated assumption).

walk_function() computes, for every call-like node of a function, the path condition under which
it is evaluated (early return / continue / break / nested if / && || ?: / loops / lambdas), with
local bool variables tracked as formulas (assignments in branches are merged as guarded values).
"""
import itertools

from .facts import walk, strip, strip_all, call_args, children
from .absint import pure_sig

T = ('T',)
Fz = ('F',)
SETTINGS_ATOMS = ['sev:warning', 'sev:style', 'sev:performance', 'sev:portability', 'sev:information',
                  'cert:inconclusive', 'set:debugwarnings', 'set:daca']
SIDX = {a: i for i, a in enumerate(SETTINGS_ATOMS)}
NSET = len(SETTINGS_ATOMS)
FULL = (1 << (1 << NSET)) - 1


def A(name):
    return ('a', name)


def Not(f):
    if f == T:
        return Fz
    if f == Fz:
        return T
    if f[0] == '!':
        return f[1]
    return ('!', f)


def And(f, g):
    if f == Fz or g == Fz:
        return Fz
    if f == T:
        return g
    if g == T:
        return f
    if f == g:
        return f
    return ('&', f, g)


def Or(f, g):
    if f == T or g == T:
        return T
    if f == Fz:
        return g
    if g == Fz:
        return f
    if f == g:
        return f
    return ('|', f, g)


def atoms(f, out=None):
    if out is None:
        out = set()
    stack = [f]
    while stack:
        x = stack.pop()
        if x[0] == 'a':
            out.add(x[1])
        elif x[0] == '!':
            stack.append(x[1])
        elif x[0] in '&|':
            stack.append(x[1])
            stack.append(x[2])
    return out


def ev(f, asg):
    t = f[0]
    if t == 'T':
        return True
    if t == 'F':
        return False
    if t == 'a':
        return asg.get(f[1], False)
    if t == '!':
        return not ev(f[1], asg)
    if t == '&':
        return ev(f[1], asg) and ev(f[2], asg)
    return ev(f[1], asg) or ev(f[2], asg)


def subst(f, m):
    """Replace atoms by formulas."""
    t = f[0]
    if t in 'TF':
        return f
    if t == 'a':
        return m.get(f[1], f)
    if t == '!':
        return Not(subst(f[1], m))
    if t == '&':
        return And(subst(f[1], m), subst(f[2], m))
    return Or(subst(f[1], m), subst(f[2], m))


def size(f):
    n = 0
    stack = [f]
    while stack:
        x = stack.pop()
        n += 1
        if x[0] == '!':
            stack.append(x[1])
        elif x[0] in '&|':
            stack.append(x[1])
            stack.append(x[2])
    return n


def first_atom(f):
    stack = [f]
    while stack:
        x = stack.pop()
        if x[0] == 'a':
            return x[1]
        if x[0] == '!':
            stack.append(x[1])
        elif x[0] in '&|':
            stack.append(x[2])
            stack.append(x[1])
    return None


def sat(f, budget=None):
    """Satisfying assignment (dict) of formula f or None.  Shannon expansion with constant folding:
    an exhaustive case split over the atoms, i.e. the truth table with early termination."""
    if budget is None:
        budget = [200000]
    if f == T:
        return {}
    if f == Fz:
        return None
    budget[0] -= 1
    if budget[0] < 0:
        raise OverflowError('formula too hard')
    # unit propagation on top-level conjunct literals
    a = None
    for c in conjuncts(f):
        if c[0] == 'a':
            a, val = c[1], True
            break
        if c[0] == '!' and c[1][0] == 'a':
            a, val = c[1][1], False
            break
    if a is not None:
        r = sat(subst(f, {a: T if val else Fz}), budget)
        if r is None:
            return None
        r[a] = val
        return r
    a = first_atom(f)
    for val in (True, False):
        r = sat(subst(f, {a: T if val else Fz}), budget)
        if r is not None:
            r[a] = val
            return r
    return None


def settings_mask(f, max_free=12):
    """Bitmask over the 2^8 settings assignments: bit set iff some assignment of the free atoms satisfies f."""
    f = prune_independent(f)
    at = atoms(f)
    used = sorted((a for a in at if a in SIDX), key=lambda a: SIDX[a])
    mask = 0
    for bits in itertools.product((False, True), repeat=len(used)):
        g = subst(f, {a: (T if b else Fz) for a, b in zip(used, bits)})
        try:
            ok = sat(g) is not None
        except OverflowError:
            ok = True
        if ok:
            base = 0
            for a, b in zip(used, bits):
                if b:
                    base |= 1 << SIDX[a]
            unused = [i for i in range(NSET) if SETTINGS_ATOMS[i] not in used]
            for ub in range(1 << len(unused)):
                idx = base
                for j, i in enumerate(unused):
                    if ub >> j & 1:
                        idx |= 1 << i
                mask |= 1 << idx
    return mask


def drop_free(f, pos=True):
    """Over-approximation that removes free atoms (replaces literals over them by True)."""
    t = f[0]
    if t in 'TF':
        return f
    if t == 'a':
        return f if f[1] in SIDX else T
    if t == '!':
        inner = f[1]
        if inner[0] == 'a':
            return f if inner[1] in SIDX else T
        # push negation down
        if inner[0] == '&':
            return Or(drop_free(Not(inner[1])), drop_free(Not(inner[2])))
        if inner[0] == '|':
            return And(drop_free(Not(inner[1])), drop_free(Not(inner[2])))
        if inner[0] == '!':
            return drop_free(inner[1])
        return Not(inner)
    if t == '&':
        return And(drop_free(f[1]), drop_free(f[2]))
    return Or(drop_free(f[1]), drop_free(f[2]))


def mask_formula_asg(idx):
    return {SETTINGS_ATOMS[i]: bool(idx >> i & 1) for i in range(NSET)}


def conjuncts(f):
    out = []
    stack = [f]
    while stack:
        x = stack.pop()
        if x[0] == '&':
            stack.append(x[2])
            stack.append(x[1])
        else:
            out.append(x)
    return out


def prune_independent(f):
    """Drops top-level conjuncts that mention only free atoms occurring in no other conjunct: they constrain
    nothing that the settings atoms depend on (exact for satisfiable conjuncts; an over-approximation of
    reachability otherwise)."""
    cs = conjuncts(f)
    if len(cs) <= 1:
        return f
    ats = [atoms(c) for c in cs]
    changed = True
    keep = [True] * len(cs)
    while changed:
        changed = False
        count = {}
        for i, a in enumerate(ats):
            if keep[i]:
                for x in a:
                    count[x] = count.get(x, 0) + 1
        for i, a in enumerate(ats):
            if not keep[i] or not a:
                continue
            if any(x in SIDX for x in a):
                continue
            if all(count[x] == 1 for x in a):
                keep[i] = False
                changed = True
    r = T
    for i, c in enumerate(cs):
        if keep[i]:
            r = And(r, c)
    return r


def find_counterexample(ec_mask, f, goal_atom, max_free=14):
    """Assignment with ec_mask, f true and goal_atom false; None if  ec & f => goal  is valid."""
    f = prune_independent(f)
    at = atoms(f)
    used = sorted((a for a in at if a in SIDX and a != goal_atom), key=lambda a: SIDX[a])
    gi = SIDX[goal_atom]
    for bits in itertools.product((False, True), repeat=len(used)):
        part = dict(zip(used, bits))
        part[goal_atom] = False
        # is there a full settings assignment in ec_mask consistent with the partial one?
        full = None
        for idx in range(1 << NSET):
            if not (ec_mask >> idx & 1):
                continue
            if all(bool(idx >> SIDX[a] & 1) == v for a, v in part.items()):
                full = idx
                break
        if full is None:
            continue
        g = subst(f, {a: (T if v else Fz) for a, v in part.items()})
        try:
            r = sat(g)
        except OverflowError:
            return 'too-many-atoms'
        if r is not None:
            asg = mask_formula_asg(full)
            asg.update(r)
            return asg
    return None


# ---- translation of conditions -----------------------------------------------------------------------------

INSERTERS = {'push_back', 'emplace_back', 'insert', 'emplace', 'push_front', 'emplace_front', 'push', 'emplace_hint'}
CONTAINER_READERS = {'begin', 'end', 'cbegin', 'cend', 'empty', 'size', 'find', 'count', 'front', 'back', 'erase', 'clear',
                     'rbegin', 'rend', 'at', 'reserve', 'sort', 'unique', 'pop_back', 'pop_front', 'top', 'pop'}


ENABLE_FIELDS = {'Settings::severity': 'sev', 'Settings::certainty': 'cert', 'Settings::checks': 'checks'}
SET_FIELDS = {'Settings::debugwarnings': 'set:debugwarnings', 'Settings::daca': 'set:daca'}


class FnWalk:
    """Path conditions and guarded constant values for one function."""

    def __init__(self, F, fn, body, assumptions=None, on_call=None):
        self.on_call = on_call
        self.F = F
        self.fn = fn
        self.body = body
        self.pidx = {p['di']: i for i, p in enumerate(fn['params'])}
        self.ptype = {p['di']: p['t'] for p in fn['params']}
        self.benv = {}        # di -> formula (bool locals)
        self.cenv = {}        # di -> [(guard, const)]  (enum / string locals)
        self.pc_at = {}       # id(call node) -> formula
        self.env_at = {}      # id(call node) -> (benv snapshot, cenv snapshot)
        self.node_at = {}
        self.assumptions = assumptions if assumptions is not None else set()
        self.assigned_in_loop_cache = {}
        self.inserted = {}    # local container decl id -> [pc of each insertion]
        self._local_containers = None

    # -- conditions --
    def formula(self, n, depth=0):
        n = strip(n)
        if n is None or depth > 12:
            return A('X:none')
        k = n.get('k')
        if k == 'CXXBoolLiteralExpr':
            return T if n.get('v') else Fz
        if k in ('CXXNullPtrLiteralExpr', 'GNUNullExpr'):
            return Fz
        if k == 'IntegerLiteral':
            return Fz if n.get('v') == '0' else T
        if k == 'UnaryOperator' and n.get('op') == '&':
            return T
        if k == 'CXXThisExpr':
            return T
        if k == 'UnaryOperator' and n.get('op') == '!':
            return Not(self.formula(n['c'][0], depth + 1))
        if k == 'BinaryOperator' and n.get('op') == '&&':
            return And(self.formula(n['c'][0], depth + 1), self.formula(n['c'][1], depth + 1))
        if k == 'BinaryOperator' and n.get('op') == '||':
            return Or(self.formula(n['c'][0], depth + 1), self.formula(n['c'][1], depth + 1))
        if k == 'ConditionalOperator':
            c = self.formula(n['c'][0], depth + 1)
            return Or(And(c, self.formula(n['c'][1], depth + 1)), And(Not(c), self.formula(n['c'][2], depth + 1)))
        if k == 'BinaryOperator' and n.get('op') in ('==', '!='):
            a, b = strip(n['c'][0]), strip(n['c'][1])
            for x, y in ((a, b), (b, a)):
                if y.get('k') in ('CXXNullPtrLiteralExpr', 'GNUNullExpr') or (y.get('k') == 'IntegerLiteral' and y.get('v') == '0' and (x.get('t') or '').rstrip().endswith('*')):
                    fx = self.formula(x, depth + 1)
                    return fx if n['op'] == '!=' else Not(fx)
                if y.get('k') == 'CXXBoolLiteralExpr':
                    fx = self.formula(x, depth + 1)
                    same = (n['op'] == '==') == bool(y.get('v'))
                    return fx if same else Not(fx)
                if y.get('k') == 'DeclRefExpr' and y.get('dk') == 'EnumConstant':
                    cv = self.cval(x)
                    if all(isinstance(c, str) and c != 'TOP' for _, c in cv):
                        f = Fz
                        for g, c in cv:
                            if c == y['n']:
                                f = Or(f, g)
                        return f if n['op'] == '==' else Not(f)
                    sg = pure_sig(x)
                    if sg is not None:
                        at = A('U:%s==%s' % (sg, y['n']))
                        return at if n['op'] == '==' else Not(at)
                if y.get('k') == 'IntegerLiteral' and x.get('k') == 'DeclRefExpr' and x.get('di') in self.pidx:
                    at = A('PEQ:%d:%s' % (self.pidx[x['di']], y.get('v')))
                    return at if n['op'] == '==' else Not(at)
        if k == 'CXXMemberCallExpr':
            fn = n.get('fn') or ''
            callee = n['c'][0]
            obj = strip(callee['c'][0]) if callee.get('c') else None
            args = [a for a in call_args(n)]
            if 'SimpleEnableGroup' in fn and fn.endswith('::isEnabled') and obj is not None and obj.get('k') == 'MemberExpr' and obj.get('n') in ENABLE_FIELDS:
                a0 = strip(args[0]) if args else None
                if a0 is not None and a0.get('k') == 'DeclRefExpr' and a0.get('dk') == 'EnumConstant':
                    name = ENABLE_FIELDS[obj['n']] + ':' + a0['n'].rsplit('::', 1)[1]
                    return A(name)
                cv = self.cval(args[0]) if args else []
                if cv and all(isinstance(c, str) and c != 'TOP' for _, c in cv):
                    f = Fz
                    for g, c in cv:
                        f = Or(f, And(g, A(ENABLE_FIELDS[obj['n']] + ':' + c.rsplit('::', 1)[1])))
                    return f
                return A('X:%s:%s' % (n.get('l'), n.get('col')))
            if fn == 'Settings::isEnabled' and len(args) >= 1:
                v = self.value_sig(args[0])
                inc = self.formula(args[1], depth + 1) if len(args) > 1 and args[1].get('k') != 'DefaultArg' else Fz
                # (warning or errorSeverity(v)) and (inconclusive or not (inc or v.isInconclusive))
                return And(Or(A('sev:warning'), A('ES:' + v)), Or(A('cert:inconclusive'), Not(Or(inc, A('INC:' + v)))))
            if fn == 'Settings::isPremiumEnabled':
                self.assumptions.add('Settings::isPremiumEnabled(...) is false (open-source build)')
                return Fz
            short = fn.rsplit('::', 1)[-1]
            if short in ('errorSeverity', 'isInconclusive', 'isKnown') and 'Value' in fn:
                v = pure_sig(obj) if obj is not None else None
                if v is None:
                    v = '%s:%s' % (n.get('l'), n.get('col'))
                pref = {'errorSeverity': 'ES:', 'isInconclusive': 'INC:', 'isKnown': 'KNOWN:'}[short]
                return A(pref + v)
        if k == 'DeclRefExpr' and not n.get('g'):
            di = n.get('di')
            if di in self.benv:
                return self.benv[di]
            if di in self.pidx and ((self.ptype.get(di) or '').replace('const ', '') == 'bool' or (self.ptype.get(di) or '').rstrip().endswith('*')):
                return A('P:%d' % self.pidx[di])
            if di:
                return A('L:%s' % di)
        if k == 'MemberExpr' and n.get('n') in SET_FIELDS:
            return A(SET_FIELDS[n['n']])
        sg = pure_sig(n)
        if sg is not None:
            if sg.startswith('!'):
                return Not(A('U:' + sg[1:]))
            return A('U:' + sg)
        return A('X:%s:%s' % (n.get('l'), n.get('col')))

    def value_sig(self, n):
        n = strip(n)
        while n is not None and n.get('k') == 'UnaryOperator' and n.get('op') in ('&', '*') and n.get('c'):
            n = strip(n['c'][0])
        sg = pure_sig(n)
        return sg if sg is not None else 'val@%s:%s' % (n.get('l'), n.get('col')) if n else 'val?'

    # -- guarded constants --
    def cval(self, n, depth=0):
        """[(guard formula, const)] where const is an enumerator name, 'TOP', or ('param', i)."""
        n = strip_all(n)
        if n is None or depth > 10:
            return [(T, 'TOP')]
        k = n.get('k')
        if k == 'DeclRefExpr':
            if n.get('dk') == 'EnumConstant':
                return [(T, n['n'])]
            di = n.get('di')
            if di in self.cenv:
                return self.cenv[di]
            if di in self.pidx:
                return [(T, ('param', self.pidx[di]))]
            return [(T, 'TOP')]
        if k == 'ConditionalOperator':
            c = self.formula(n['c'][0])
            out = [(And(c, g), v) for g, v in self.cval(n['c'][1], depth + 1)]
            out += [(And(Not(c), g), v) for g, v in self.cval(n['c'][2], depth + 1)]
            return out
        if k in ('CallExpr', 'CXXMemberCallExpr') and n.get('fn') in ('std::move',):
            return self.cval(call_args(n)[0], depth + 1)
        if k in ('CXXConstructExpr', 'CXXStaticCastExpr', 'CXXFunctionalCastExpr'):
            args = [a for a in n.get('c', ()) if a.get('k') != 'DefaultArg']
            if len(args) == 1:
                return self.cval(args[0], depth + 1)
        return [(T, 'TOP')]

    # -- statement walk --
    def run(self):
        self.stmt(self.body, T)
        return self

    def record(self, n, pc):
        self.pc_at[id(n)] = Or(self.pc_at[id(n)], pc) if id(n) in self.pc_at else pc
        self.node_at[id(n)] = n
        if self.on_call is not None:
            self.on_call(n, pc, self)

    def expr(self, n, pc):
        """Record path conditions of call nodes inside expression n evaluated under pc; apply assignments."""
        if n is None:
            return
        k = n.get('k')
        if k == 'LambdaExpr':
            for c in n.get('c', ()):
                self.expr(c, pc)
            saved = (dict(self.benv), dict(self.cenv))
            self.stmt(n.get('body'), pc)
            self.benv, self.cenv = saved
            return
        if k == 'BinaryOperator' and n.get('op') in ('&&', '||'):
            self.expr(n['c'][0], pc)
            c = self.formula(n['c'][0])
            self.expr(n['c'][1], And(pc, c if n['op'] == '&&' else Not(c)))
            return
        if k == 'ConditionalOperator':
            self.expr(n['c'][0], pc)
            c = self.formula(n['c'][0])
            self.expr(n['c'][1], And(pc, c))
            self.expr(n['c'][2], And(pc, Not(c)))
            return
        for c in children(n):
            self.expr(c, pc)
        if k in ('CallExpr', 'CXXMemberCallExpr', 'CXXConstructExpr', 'CXXTemporaryObjectExpr'):
            self.record(n, pc)
        if k == 'CXXMemberCallExpr' and (n.get('fn') or '').rsplit('::', 1)[-1] in INSERTERS and n.get('c'):
            callee = n['c'][0]
            obj = strip(callee['c'][0]) if callee.get('c') else None
            if obj is not None and obj.get('k') == 'DeclRefExpr' and obj.get('di') and not obj.get('g'):
                self.inserted.setdefault(obj['di'], []).append(pc)
        if k == 'CXXOperatorCallExpr' and n.get('op') == '[]' and len(n.get('c', ())) > 1:
            obj = strip(n['c'][1])
            if obj.get('k') == 'DeclRefExpr' and obj.get('di') and not obj.get('g') and 'const' not in (obj.get('t') or '')[:6]:
                self.inserted.setdefault(obj['di'], []).append(pc)
        if k == 'BinaryOperator' and n.get('op') == '=':
            l = strip(n['c'][0])
            if l.get('k') == 'DeclRefExpr' and l.get('di') and not l.get('g'):
                self.assign(l, n['c'][1])
        elif k == 'CXXOperatorCallExpr' and n.get('op') == '=' and len(n.get('c', ())) > 2:
            l = strip(n['c'][1])
            if l.get('k') == 'DeclRefExpr' and l.get('di') and not l.get('g'):
                self.assign(l, n['c'][2])
        elif k in ('CompoundAssignOperator',) or (k == 'BinaryOperator' and n.get('op') in ('|=', '&=', '^=')):
            l = strip(n['c'][0])
            if l.get('k') == 'DeclRefExpr' and l.get('di') and not l.get('g'):
                t = (l.get('t') or '').replace('const ', '')
                if t == 'bool':
                    cur = self.benv.get(l['di'], A('L:%s' % l['di']))
                    r = self.formula(n['c'][1])
                    if n.get('op') == '|=':
                        self.benv[l['di']] = Or(cur, r)
                    elif n.get('op') == '&=':
                        self.benv[l['di']] = And(cur, r)
                    else:
                        self.benv[l['di']] = A('X:%s:%s' % (n.get('l'), n.get('col')))

    def assign(self, l, rhs):
        t = (l.get('t') or '').replace('const ', '')
        if t == 'bool':
            self.benv[l['di']] = self.formula(rhs)
        else:
            self.cenv[l['di']] = self.cval(rhs)

    def decl(self, d, pc):
        if d.get('init') is not None:
            self.expr(d['init'], pc)
        t = (d.get('t') or '').replace('const ', '')
        if t == 'bool':
            self.benv[d['di']] = self.formula(d['init']) if d.get('init') is not None else A('L:%s' % d['di'])
        elif t in ('Severity', 'Certainty', 'auto') or t.endswith('Severity') or t.endswith('Certainty'):
            self.cenv[d['di']] = self.cval(d['init']) if d.get('init') is not None else [(T, 'TOP')]

    def merge_env(self, pcs_envs):
        """pcs_envs: list of (pc, benv, cenv) of the surviving branches."""
        pcs_envs = [x for x in pcs_envs if x[0] is not None]
        if len(pcs_envs) == 1:
            self.benv, self.cenv = pcs_envs[0][1], pcs_envs[0][2]
            return
        keys = set()
        for _, b, _c in pcs_envs:
            keys |= set(b)
        nb = {}
        for kx in keys:
            vals = [b.get(kx) for _, b, _c in pcs_envs]
            if all(v is not None and v == vals[0] for v in vals):
                nb[kx] = vals[0]
                continue
            f = Fz
            ok = True
            for (pcx, b, _c) in pcs_envs:
                v = b.get(kx)
                if v is None:
                    ok = False
                    break
                f = Or(f, And(pcx, v))
            if ok and size(f) < 400:
                nb[kx] = f
        ckeys = set()
        for _, _b, c in pcs_envs:
            ckeys |= set(c)
        nc = {}
        for kx in ckeys:
            vals = [c.get(kx) for _, _b, c in pcs_envs]
            if all(v is not None and v == vals[0] for v in vals):
                nc[kx] = vals[0]
                continue
            out = []
            ok = True
            for (pcx, _b, c) in pcs_envs:
                v = c.get(kx)
                if v is None:
                    ok = False
                    break
                out += [(And(pcx, g), cst) for g, cst in v]
            if ok and len(out) < 40:
                nc[kx] = out
        self.benv, self.cenv = nb, nc

    def local_containers(self):
        """Locals that start empty and are only touched through container methods (never passed on)."""
        if self._local_containers is not None:
            return self._local_containers
        decl = {}
        for x in walk(self.body):
            if x.get('k') == 'VarDecl' and x.get('di') and any(t in (x.get('t') or '') for t in ('std::list', 'std::vector', 'std::set', 'std::map', 'std::deque', 'std::unordered')):
                i0 = strip_all(x.get('init')) if x.get('init') is not None else None
                empty = i0 is None or (i0.get('k') in ('CXXConstructExpr', 'CXXTemporaryObjectExpr') and not [a for a in i0.get('c', ()) if a.get('k') != 'DefaultArg'])
                if empty:
                    decl[x['di']] = True
        # disqualify on any use that is not a container method call / range-for / operator[]
        from .facts import walk_parents
        for x, parents in walk_parents(self.body):
            if x.get('k') == 'DeclRefExpr' and x.get('di') in decl:
                ok = False
                for p in reversed(parents):
                    pk = p.get('k')
                    if pk in ('ImplicitCastExpr',):
                        continue
                    if pk == 'MemberExpr' and p.get('dk') == 'CXXMethod':
                        short = (p.get('n') or '').rsplit('::', 1)[-1]
                        ok = short in INSERTERS or short in CONTAINER_READERS
                    elif pk == 'CXXForRangeStmt':
                        ok = True
                    elif pk == 'CXXOperatorCallExpr' and p.get('op') == '[]':
                        ok = True
                    break
                if not ok:
                    decl[x['di']] = False
        self._local_containers = {d for d, v in decl.items() if v}
        return self._local_containers

    def container_guard(self, rng):
        """Settings-only condition under which a locally filled container can be non-empty."""
        r = strip(rng)
        if r is None or r.get('k') != 'DeclRefExpr' or r.get('di') not in self.local_containers():
            return None
        pcs = self.inserted.get(r['di'])
        if not pcs:
            return None
        f = Fz
        for p in pcs:
            f = Or(f, drop_free(p))
        return f

    def assigned_vars(self, n):
        key = id(n)
        if key in self.assigned_in_loop_cache:
            return self.assigned_in_loop_cache[key]
        out = set()
        for x in walk(n):
            k = x.get('k')
            if k in ('BinaryOperator', 'CompoundAssignOperator') and x.get('op', '').endswith('=') and x['op'] not in ('==', '!=', '<=', '>='):
                l = strip(x['c'][0])
                if l.get('k') == 'DeclRefExpr' and l.get('di'):
                    out.add(l['di'])
            elif k == 'CXXOperatorCallExpr' and x.get('op') == '=' and len(x.get('c', ())) > 2:
                l = strip(x['c'][1])
                if l.get('k') == 'DeclRefExpr' and l.get('di'):
                    out.add(l['di'])
        self.assigned_in_loop_cache[key] = out
        return out

    def stmt(self, n, pc):
        """Walks statement n, which is entered under path condition pc.  Returns the *relative* condition r
        such that control falls through to the next statement under pc & r (None = never falls through)."""
        if n is None:
            return T
        k = n.get('k')
        if k == 'CompoundStmt':
            r = T
            for c in n.get('c', ()):
                rc = self.stmt(c, And(pc, r))
                if rc is None:
                    return None
                r = And(r, rc)
            return r
        if k == 'DeclStmt':
            for d in n.get('decls', ()):
                self.decl(d, pc)
            return T
        if k == 'IfStmt':
            if n.get('init'):
                self.stmt(n['init'], pc)
            if n.get('condvar'):
                self.stmt(n['condvar'], pc)
            self.expr(n.get('cond'), pc)
            c = self.formula(n.get('cond'))
            b0, c0 = dict(self.benv), dict(self.cenv)
            rt = self.stmt(n.get('then'), And(pc, c))
            bt, ct = self.benv, self.cenv
            self.benv, self.cenv = dict(b0), dict(c0)
            re_ = self.stmt(n.get('else'), And(pc, Not(c))) if n.get('else') is not None else T
            be, ce = self.benv, self.cenv
            if rt is None and re_ is None:
                return None
            pt = None if rt is None else And(c, rt)
            pe = None if re_ is None else And(Not(c), re_)
            self.merge_env([(pt, bt, ct), (pe, be, ce)])
            if pt is None:
                return pe
            if pe is None:
                return pt
            if rt == T and re_ == T:
                return T
            r = Or(pt, pe)
            return r if size(r) < 300 else T
        if k in ('WhileStmt', 'ForStmt', 'CXXForRangeStmt', 'DoStmt'):
            if k == 'ForStmt' and n.get('init'):
                self.stmt(n['init'], pc)
            if k == 'CXXForRangeStmt':
                self.expr(n.get('range'), pc)
                g = self.container_guard(n.get('range'))
                if g is not None:
                    pc = And(pc, g)
            # havoc locals assigned in the loop
            for di in self.assigned_vars(n):
                if di in self.benv:
                    self.benv[di] = A('H:%s@%s' % (di, n.get('l')))
                if di in self.cenv:
                    self.cenv[di] = [(T, 'TOP')]
            b0, c0 = dict(self.benv), dict(self.cenv)
            if n.get('condvar'):
                self.stmt(n['condvar'], pc)
            body_pc = pc
            if n.get('cond') is not None and k != 'DoStmt':
                self.expr(n['cond'], pc)
                body_pc = And(pc, self.formula(n['cond']))
            rb = self.stmt(n.get('body'), body_pc)
            if n.get('inc'):
                self.expr(n['inc'], And(body_pc, rb) if rb is not None else body_pc)
            if k == 'DoStmt' and n.get('cond') is not None:
                self.expr(n['cond'], pc)
            self.benv, self.cenv = b0, c0
            for di in self.assigned_vars(n):
                if di in self.benv:
                    self.benv[di] = A('H:%s@%s' % (di, n.get('l')))
                if di in self.cenv:
                    self.cenv[di] = [(T, 'TOP')]
            return T
        if k == 'SwitchStmt':
            if n.get('init'):
                self.stmt(n['init'], pc)
            self.expr(n.get('cond'), pc)
            b0, c0 = dict(self.benv), dict(self.cenv)
            body = n.get('body')
            items = body.get('c', []) if body and body.get('k') == 'CompoundStmt' else ([body] if body else [])
            cur = None
            for c in items:
                x = c
                label = False
                while x is not None and x.get('k') in ('CaseStmt', 'DefaultStmt'):
                    label = True
                    x = x.get('sub')
                if label:
                    cur = T
                    self.benv, self.cenv = dict(b0), dict(c0)
                if x is None or cur is None:
                    continue
                if x.get('k') == 'BreakStmt':
                    cur = None
                    continue
                rc = self.stmt(x, And(pc, cur))
                cur = None if rc is None else And(cur, rc)
            self.benv, self.cenv = b0, c0
            for di in self.assigned_vars(n):
                self.benv.pop(di, None)
                self.cenv.pop(di, None)
            return T
        if k in ('ReturnStmt',):
            for c in n.get('c', ()):
                self.expr(c, pc)
            return None
        if k in ('BreakStmt', 'ContinueStmt', 'GotoStmt'):
            return None
        if k == 'CXXTryStmt':
            cs = n.get('c', [])
            b0, c0 = dict(self.benv), dict(self.cenv)
            if cs:
                self.stmt(cs[0], pc)
            for h in cs[1:]:
                self.benv, self.cenv = dict(b0), dict(c0)
                self.stmt(h['c'][0] if h.get('c') else None, pc)
            self.benv, self.cenv = b0, c0
            for di in self.assigned_vars(n):
                self.benv.pop(di, None)
                self.cenv.pop(di, None)
            return T
        if k in ('CaseStmt', 'DefaultStmt'):
            return self.stmt(n.get('sub'), pc)
        if k in ('LabelStmt', 'AttributedStmt'):
            return self.stmt(n['c'][0] if n.get('c') else None, pc)
        if k == 'NullStmt':
            return T
        self.expr(n, pc)
        if k == 'CXXThrowExpr':
            return None
        return T
