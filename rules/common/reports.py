"""Abstract interpretation of cppcheck's finding-reporting calls.

A *reporter* is a function with (some of) the roles id / severity / certainty among its
parameters: the ErrorMessage constructors are the primitives, everything that forwards a
parameter into a reporter's role is a wrapper (Check::reportError, Tokenizer::reportError, ...),
found by fixpoint.  An *effect* is one call of a reporter with the role values evaluated to finite
sets (string-set / enumerator-set evaluator below).  An effect whose sets mention no parameter
of the enclosing function is *final* there: that function is an emitter of those ids.

Values: frozenset of str constants, the marker TOP ('?') for anything non-constant, and
('p', i) for "parameter i of the enclosing function".
"""
import collections

from .facts import walk, walk_parents, strip, strip_all, call_args, children
from .absint import Interp, correlated_conditions

TOP = '?'
ROLE_NAMES = {'id': ('id', 'id_', 'errorId', 'msgId'), 'sev': ('severity', 'sev', 'severity_'), 'cert': ('certainty', 'certainty_')}


def _is_repo(fn):
    return fn['file'].startswith(('lib/', 'cli/'))


class Reports:
    def __init__(self, F):
        self.F = F
        self.reporters = {}      # fn key -> {'fn':fn, 'roles': {role: param index}}   (primitives)
        self.effects = collections.defaultdict(list)   # fn key -> [effect]
        self.final = []          # effects final in their function
        self._find_primitives()
        self._run()

    def _find_primitives(self):
        for fn in self.F.find('ErrorMessage::ErrorMessage'):
            roles = {}
            for i, p in enumerate(fn['params']):
                for role, names in ROLE_NAMES.items():
                    if p['n'] in names:
                        roles[role] = i
            if 'id' in roles:
                self.reporters[self.F.key(fn)] = {'fn': fn, 'roles': roles}
        if len(self.reporters) < 3:
            from .facts import AnalysisBroken
            raise AnalysisBroken('ErrorMessage constructors with an id parameter: found %d, expected >= 3' % len(self.reporters))

    def _run(self):
        F = self.F
        # summaries[key] = list of effects (with possibly symbolic values) of calling this function
        summaries = {k: [{'id': frozenset([('p', r['roles']['id'])]),
                          'sev': frozenset([('p', r['roles']['sev'])]) if 'sev' in r['roles'] else frozenset([TOP]),
                          'cert': frozenset([('p', r['roles']['cert'])]) if 'cert' in r['roles'] else frozenset(['Certainty::normal']),
                          'prim': True}]
                     for k, r in self.reporters.items()}
        # candidate functions: anything in the repo that calls a reporter (iterate to fixpoint on wrappers)
        callers = collections.defaultdict(set)
        fns = [f for f in F.all_fns() if _is_repo(f)]
        by_callee = collections.defaultdict(list)
        for f in fns:
            for c in f['calls']:
                by_callee[c['f']].append(f)
        work = list(summaries)
        done_fn = {}
        rounds = 0
        pending = set()
        for k in work:
            fid = k.rsplit('@', 1)[0]
            for f in by_callee.get(fid, ()):
                pending.add(F.key(f))
        while pending and rounds < 8:
            rounds += 1
            nxt = set()
            for key in sorted(pending):
                f = F.fn_by_key(key)
                if f is None or key in self.reporters:
                    continue
                effs = self._effects_of(f, summaries)
                sym = [e for e in effs if self._symbolic(e)]
                old = summaries.get(key)
                newsum = [{'id': e['id'], 'sev': e['sev'], 'cert': e['cert'], 'via': e} for e in sym]
                self.effects[key] = effs
                if self._sig(old) != self._sig(newsum):
                    summaries[key] = newsum
                    for g in by_callee.get(f['id'], ()):
                        nxt.add(F.key(g))
                    # virtual dispatch: callers of an overridden method
                    for o in f.get('overrides', ()):
                        for g in by_callee.get(o, ()):
                            nxt.add(F.key(g))
            pending = nxt
        self.summaries = summaries
        for key, effs in self.effects.items():
            for e in effs:
                if not self._symbolic(e):
                    self.final.append(e)

    @staticmethod
    def _sig(s):
        if s is None:
            return None
        return sorted((sorted(map(str, e['id'])), sorted(map(str, e['sev'])), sorted(map(str, e['cert']))) for e in s)

    @staticmethod
    def _symbolic(e):
        return any(isinstance(v, tuple) for role in ('id', 'sev', 'cert') for v in e[role])

    def ret_eval(self, g, argvals, _depth=[0]):
        """Values a repo function may return for these abstract arguments (memoised)."""
        key = (self.F.key(g), tuple(argvals))
        memo = self.__dict__.setdefault('_retmemo', {})
        if key in memo:
            return memo[key]
        if _depth[0] > 3:
            return None
        memo[key] = None
        b = self.F.body(g)
        if b is None:
            return None
        _depth[0] += 1
        try:
            it = Interp(self.F, g, b['body'], binding=list(argvals), ret_eval=self.ret_eval).run()
        finally:
            _depth[0] -= 1
        r = frozenset(it.returns) if it.returns else None
        if r is not None and any(isinstance(x, tuple) for x in r):
            r = frozenset(TOP if isinstance(x, tuple) else x for x in r)
        memo[key] = r
        return r

    def _effects_of(self, f, summaries, binding=None, obj_flags=None, mode='emit', recurse=None):
        F = self.F
        b = F.body(f)
        if b is None:
            return []
        body = b['body']
        out = []

        def on_call(x, it):
            if not x.get('fid'):
                return
            for g in F.resolve(f, x['fid'], x.get('virt', False)):
                s = summaries.get(F.key(g))
                if not s:
                    continue
                args = call_args(x)
                if x.get('k') == 'CXXOperatorCallExpr':
                    continue
                for se in s:
                    e = {'fn': f, 'node': x, 'callee': g, 'line': x.get('l')}
                    for role in ('id', 'sev', 'cert'):
                        vals = set()
                        for v in se[role]:
                            if isinstance(v, tuple):
                                i = v[1]
                                if i < len(args):
                                    vals |= it.ev(args[i])
                                else:
                                    vals.add(TOP)
                            else:
                                vals.add(v)
                        e[role] = frozenset(vals)
                    e['inner'] = se.get('via')
                    out.append(e)

        inner_cb = on_call

        def on_call2(x, it):
            inner_cb(x, it)
            if recurse is not None and x.get('fid') and x.get('k') != 'CXXOperatorCallExpr':
                for g in F.resolve(f, x['fid'], x.get('virt', False)):
                    if F.key(g) in summaries and summaries[F.key(g)]:
                        continue
                    args = call_args(x)
                    recurse(g, [it.ev(a) for a in args], {i: it.value_flags(a) for i, a in enumerate(args)})

        # case split on pure conditions that are tested more than once (keeps `x ? "A" : "B"` correlated with a later
        # `if (x)`), at most 4 conditions = 16 runs
        ks = correlated_conditions(body)
        if binding:
            bound = set()
            for i, p_ in enumerate(f['params']):
                if i < len(binding) and binding[i] is not None:
                    bound.add('v:' + str(p_['di']))
            ks = [k for k in ks if k.split('.')[0] not in bound]
        import itertools
        for combo in itertools.product((True, False), repeat=len(ks)):
            assume = {}
            for k, v in zip(ks, combo):
                assume[k] = v
                assume['!' + k] = not v
            it = Interp(F, f, body, binding=binding, on_call=on_call2, ret_eval=self.ret_eval, obj_flags=obj_flags, mode=mode,
                        assume=assume)
            for i in b.get('inits', ()):
                if i.get('init'):
                    it.visit_expr(i['init'])
            it.run()
        # de-duplicate (loops visit a call several times)
        seen = {}
        for e in out:
            k = (id(e['node']), F.key(e['callee']), str(sorted(map(str, e['inner']['id']))) if e.get('inner') else '')
            if k in seen:
                o = seen[k]
                for role in ('id', 'sev', 'cert'):
                    o[role] = o[role] | e[role]
            else:
                seen[k] = e
        return list(seen.values())

    # ---- queries ----------------------------------------------------------------------------------------
    def emitters(self):
        """{fn key: [final effects]}"""
        m = collections.defaultdict(list)
        for e in self.final:
            m[self.F.key(e['fn'])].append(e)
        return m

    def may_report(self):
        """Functions from which a reporting call is reachable within 3 call levels."""
        if hasattr(self, '_may'):
            return self._may
        F = self.F
        cur = {k for k, v in self.effects.items() if v}
        allm = set(cur)
        rev = collections.defaultdict(set)
        for f in F.all_fns():
            if not _is_repo(f):
                continue
            for c in f['calls']:
                rev[c['f']].add(F.key(f))
        for _ in range(3):
            nxt = set()
            for k in cur:
                fid = k.rsplit('@', 1)[0]
                fn = F.fn_by_key(k)
                names = [fid] + list(fn.get('overrides', ())) if fn else [fid]
                for n in names:
                    for c in rev.get(n, ()):
                        if c not in allm:
                            nxt.add(c)
            allm |= nxt
            cur = nxt
        self._may = allm
        return allm

    def listed(self, root, max_depth=4):
        """Ids (and the effects that produce them) obtained by interpreting `root` and, context-sensitively, every
        function it calls that may report, with the arguments of those calls bound (booleans, enumerators,
        string constants, ValueFlow::Value flag fields)."""
        F = self.F
        may = self.may_report()
        ids = {}
        visiting = set()

        def go(f, binding, flags, depth):
            key = F.key(f)
            if key not in may or depth > max_depth:
                return
            sig = (key, tuple(binding or ()), str(sorted((flags or {}).items(), key=str)))
            if sig in visiting:
                return
            visiting.add(sig)

            def rec(g, argvals, argflags):
                if _is_repo(g):
                    b2 = [v if (TOP not in v and not any(isinstance(x, tuple) for x in v)) else None for v in argvals]
                    go(g, b2, argflags, depth + 1)

            effs = self._effects_of(f, self.summaries, binding, flags, mode='list', recurse=rec)
            for e in effs:
                for i in e['id']:
                    if isinstance(i, str):
                        ids.setdefault(i, []).append(e)

        go(root, None, None, 0)
        return ids
