"""C17  A file's findings do not depend on the other files in the run (state carried by the reused analyzer).

Decides: the analyzer object that the single-job executor reuses for every file carries no per-file
state from one check() into the next, no static-storage variable is modified by the per-file analysis,
and the per-file analysis cannot modify the shared option objects.  Whether two files' *findings* are
independent for every input is not decided.

R17.1  per-file logger state: for every data member of CppCheck::CppCheckLogger that per-file code writes
       (derived on every run from the who-writes facts), CppCheck::checkInternal calls the member's reset
       method in its straight-line prologue, i.e. before the first statement that can return, throw or
       report; (a reset only at the end is skipped by the early returns - the shape of the defect fixed in
       /repo, see known_findings.json).  Members whose value is overwritten before every use, or that are
       accumulators by design, are in the reasoned tables.
R17.2  no static-storage variable is written / mutated by code reachable from CppCheck::check other than
       const objects, mutexes and the standard streams; memo tables are listed with the key they use.
R17.4  a function-local static reachable from CppCheck::check is not initialised from parameters, locals or `this`
       (it would keep the first file's value for the whole run); run-constant exceptions are tabled.
R17.5  Suppression::fileIndex (relative to one translation unit's file table) is read only by the per-unit comment processing.
R17.3  option objects: every write to a member of Settings / Platform / Standards / Library in code reachable
       from CppCheck::check goes to a local copy (the base of the member expression, or the object a mutating
       method is called on, is a local non-reference variable), and CppCheck::mSettings is a const reference.
"""
from .common.facts import walk, walk_parents, strip, strip_all, call_args, AnalysisBroken

LOGGER = 'CppCheck::CppCheckLogger'
READONLY = {'as_const', 'find', 'count', 'at', 'begin', 'end', 'cbegin', 'cend', 'size', 'empty', 'front', 'back', 'c_str', 'is_open', 'get',
            'isSuppressed', 'isSuppressedExplicitly', 'exitcode', 'str', 'length', 'compare', 'data'}
# logger members that need no reset in the prologue, with the reason
LOGGER_EXEMPT = {
    'mErrorLogger': 'reference to the downstream logger, bound in the constructor',
    'mSuppressions': 'shared suppression state by design (its semantics are C23/C24)',
    'mAnalyzerInformation': 'set immediately before the cache writer is used and reset to nullptr on every exit that follows (checked by C20)',
    'mRemarkComments': 'assigned from the current file\'s preprocessor before the first finding of the normal analysis; only read to decorate a finding '
                       'whose file and line equal the remark\'s',
    'mLocationMacros': 'cleared and refilled by setLocationMacros for every configuration before the checks run',
}
STATIC_OK = {
    'stdCoutLock': 'mutex',
}
# memo tables: mutated statics whose content is a pure function of the key only if the key captures everything the value depends on
STATIC_UNDECIDED = {
    'evaluateLibraryFunction::functions@static': 'thread_local memo of parsed <returnValue> expressions keyed by the expression text only, while the parse also depends on the '
                                                 'language flag and on settings (constant folding): a later file with another language/platform reuses the first file\'s parse. '
                                                 'No shipped cfg expression is language/platform dependent, so no failing input could be constructed; listed, not armed',
}
# function-local statics whose initialiser reads per-call state but is the same for the whole run
LOCAL_STATIC_RUN_CONSTANT = {
    ('executeAddon', 'detectedPythonExe'): 'initialised from the executeCommand callback, which is the same function for the whole process',
    ('CheckInstancesImpl::get', 's_checks'): 'the registry of Check singletons; `this` is the one process-wide instance',
}
OPTION_CLASSES = ('Settings', 'Platform', 'Standards', 'Library')


def root_of(n):
    """innermost object a member expression / method call is applied to"""
    n = strip(n)
    while n is not None:
        k = n.get('k')
        if k in ('MemberExpr',) and n.get('c'):
            n = strip(n['c'][0])
            continue
        if k in ('ImplicitCastExpr', 'ParenExpr', 'MaterializeTemporaryExpr') and n.get('c'):
            n = strip(n['c'][0])
            continue
        if k == 'CXXMemberCallExpr' and n.get('c'):
            n = strip(n['c'][0])
            continue
        if k == 'CXXOperatorCallExpr' and len(n.get('c', ())) >= 2:
            n = strip(n['c'][1])
            continue
        return n
    return n


def run(ctx):
    F = ctx.facts
    for rid, t in [('R17.1', 'per-file logger state is reset in the prologue of checkInternal'),
                   ('R17.2', 'no static-storage variable is modified by the per-file analysis'),
                   ('R17.3', 'the per-file analysis writes option objects only through local copies')]:
        ctx.rule(rid, t)

    roots = F.find('CppCheck::check')
    if len(roots) < 2:
        raise AnalysisBroken('CppCheck::check overloads not found')
    T = F.reachable(roots)
    ctx.floor('functions reachable from CppCheck::check', len(T), 3000)

    # ---- R17.1 --------------------------------------------------------------------------------------------------
    rec = F.recs[LOGGER]
    ci = F.one('CppCheck::checkInternal')
    body = F.body(ci)['body']
    # prologue: the leading statements of the body that cannot return/throw/report
    prologue_calls = []
    def terminated_guard(st):
        # `if (Settings::terminated()) return ...;` - once set, every later file returns at the same point, so nothing can observe stale state
        return st.get('k') == 'IfStmt' and st.get('cond') is not None and (strip(st['cond']).get('fn') or '') == 'Settings::terminated' and st.get('else') is None

    for st in body.get('c', ()):
        if terminated_guard(st):
            continue
        if any(y.get('k') in ('ReturnStmt', 'CXXThrowExpr', 'CXXTryStmt') for y in walk(st)):
            break
        if any(y.get('k') == 'CXXMemberCallExpr' and (y.get('fn') or '') in ('ErrorLogger::reportErr',) for y in walk(st)):
            break
        for y in walk(st):
            if y.get('k') == 'CXXMemberCallExpr' and (y.get('fn') or '').startswith(LOGGER + '::'):
                prologue_calls.append(y['fn'])
    ctx.counts['logger calls in the prologue of checkInternal'] = len(prologue_calls)
    from .common import paths as _paths

    def _gen(n):
        if n.get('k') == 'CXXMemberCallExpr' and (n.get('fn') or '').startswith(LOGGER + '::'):
            return ('reset:' + n['fn'],)
        return ()
    exits = [e for e in _paths.analyse(body, gen=_gen).exits if not (e[0] == 'return' and False)]
    n_state = 0
    for fld in rec['fields']:
        m = fld['n']
        full = LOGGER + '::' + m
        where = '%s:%s' % (rec['file'], fld['l'])
        t = fld.get('t') or ''
        if t.startswith('const ') or (t.endswith('&') and 'const' in t):
            continue
        writers = {}
        for g in F.all_fns():
            for a in g['acc']:
                if a['n'] == full and a['a'] != 'r' and not (a['a'].startswith('m:') and a['a'][2:] in READONLY) and not a['a'].startswith('e:as_const'):
                    writers.setdefault(g['name'], set()).add(a['a'])
        if not writers:
            continue
        n_state += 1
        if m in LOGGER_EXEMPT:
            ctx.ob('R17.1', 'member:%s' % m, True, '%s::%s needs no reset in the prologue: %s' % (LOGGER, m, LOGGER_EXEMPT[m]), where)
            continue
        # reset methods: logger methods that clear / assign the member and do nothing else with it
        resets = [w for w, kinds in writers.items() if w.startswith(LOGGER + '::') and w != LOGGER + '::reportErr' and
                  (kinds & {'w', 'm:clear', 'm:close', 'm:operator='})]
        hit = [r for r in resets if r in prologue_calls]
        if not hit:
            # alternative idiom: the reset is executed on every path that leaves the function
            hit = [r for r in resets if exits and all(('reset:' + r) in st for _, _, st in exits)]
        ok = bool(hit)
        ctx.ob('R17.1', 'member:%s' % m, ok,
               ('%s::%s is reset by %s in the prologue of checkInternal (or on every exit)' % (LOGGER, m, hit[0].split('::')[-1])) if ok else
               ('%s::%s is written per file (%s) but none of its reset methods (%s) is called in the prologue of CppCheck::checkInternal: after an early return '
                '(cache replay, preprocessor error, terminate) the next file starts with the previous file\'s state' %
                (LOGGER, m, ', '.join(sorted(writers)), ', '.join(r.split('::')[-1] for r in resets) or 'none')), where)
    ctx.floor('R17.1 mutable logger members', n_state, 5)
    # CppCheck's own members
    crec = F.recs['CppCheck']
    ACC = {'mFileInfo': 'whole-program accumulator, consumed by analyseWholeProgram', 'mUnusedFunctionsCheck': 'whole-program accumulator (unused functions)'}
    for fld in crec['fields']:
        t = fld.get('t') or ''
        m = fld['n']
        where = '%s:%s' % (crec['file'], fld['l'])
        if t.endswith('&') or t.startswith('const ') or t.endswith('*') or m in ('mUseGlobalSuppressions', 'mExecuteCommand', 'mLogger'):
            if m == 'mSettings':
                ok = t.startswith('const ') and t.endswith('&')
                ctx.ob('R17.3', 'mSettings-const-ref', ok, 'CppCheck::mSettings is `%s`' % t, where)
            continue
        if m in ACC:
            ctx.ob('R17.1', 'cppcheck-member:%s' % m, True, 'CppCheck::%s: %s' % (m, ACC[m]), where)
        else:
            ctx.ob('R17.1', 'cppcheck-member:%s' % m, False,
                   'CppCheck::%s (%s) is a mutable member of the reused analyzer that is neither a documented accumulator nor reset per file' % (m, t), where)
    ctx.note('CppCheck::checkClang resets neither mExitCode nor mErrorList (source comments "TODO: clear exitcode/error list"); not armed: the stale exit code only keeps a '
             'non-zero sum non-zero, the duplicate filter is applied again by the global StdLogger filter, and --clang has no cache writer that sees the filtered list')

    # ---- R17.2 --------------------------------------------------------------------------------------------------------
    seen = 0
    by_var = {}
    for k, (f, _, _) in T.items():
        for a in f['acc']:
            if not a.get('g'):
                continue
            ak = a['a']
            if ak in ('r', 'o') or (ak.startswith('m:') and ak[2:] in READONLY) or ak == 'e:as_const':
                continue
            by_var.setdefault(a['n'], []).append((f, a))
    for name, uses in sorted(by_var.items()):
        if name.startswith('std::'):
            continue
        d = (F.vars.get(name) or [{}])[0]
        seen += 1
        where = '%s:%s' % (d.get('file', '?'), d.get('line', '?'))
        if d.get('const'):
            continue
        if name in STATIC_OK or 'std::mutex' in (d.get('type') or ''):
            ctx.ob('R17.2', 'static:%s' % name, True, 'static %s is a synchronisation object' % name, where)
            continue
        if name in STATIC_UNDECIDED:
            ctx.note('R17.2 undecided: %s - %s' % (name, STATIC_UNDECIDED[name]))
            continue
        f, a = uses[0]
        ctx.ob('R17.2', 'static:%s' % name, False,
               'static-storage variable %s (%s) is modified (%s) by %s, reachable from CppCheck::check via %s: its content survives from one file to the next'
               % (name, d.get('type'), a['a'], f['name'], ' -> '.join(F.chain(T, F.key(f))[-4:])), '%s:%s' % (f['file'], a['l']))
    ctx.counts['static-storage variables mutated or address-taken in the per-file analysis'] = seen
    ctx.ob('R17.2', 'statics-census', True, '%d static-storage variables are touched non-read-only by the per-file analysis; all but the listed ones are const' % seen,
           'lib/')

    # ---- R17.4 function-local statics are initialised once, by the first file that gets there -----------------------------
    ctx.rule('R17.4', 'function-local statics in the per-file analysis are not initialised from per-call state')
    nstat = 0
    for k, (f, _, _) in T.items():
        b = F.body(f)
        if b is None:
            continue
        locs = None
        for x in walk(b['body']):
            if x.get('k') == 'VarDecl' and x.get('static') and x.get('init') is not None:
                nstat += 1
                if locs is None:
                    locs = {y['di'] for y in walk(b['body']) if y.get('k') == 'VarDecl' and not y.get('static')}
                dep = []
                for y in walk(x['init']):
                    if y.get('k') == 'CXXThisExpr':
                        dep.append('this')
                    elif y.get('k') == 'DeclRefExpr' and y.get('dk') == 'ParmVar':
                        dep.append('parameter ' + y['n'])
                    elif y.get('k') == 'DeclRefExpr' and y.get('dk') == 'Var' and y.get('di') in locs:
                        dep.append('local ' + y['n'])
                if not dep:
                    continue
                where = '%s:%s' % (f['file'], x['l'])
                if (f['name'], x['n']) in LOCAL_STATIC_RUN_CONSTANT:
                    ctx.ob('R17.4', 'local-static:%s:%s' % (f['name'], x['n']), True, 'static %s in %s is initialised from %s: %s'
                           % (x['n'], f['name'], dep[0], LOCAL_STATIC_RUN_CONSTANT[(f['name'], x['n'])]), where)
                else:
                    ctx.ob('R17.4', 'local-static:%s:%s' % (f['name'], x['n']), False,
                           'function-local static %s (%s) in %s is initialised from %s: it keeps the value computed for the first file (language, settings, token) for every '
                           'later file of the run' % (x['n'], x.get('t'), f['name'], ', '.join(sorted(set(dep)))), where)
    ctx.floor('R17.4 function-local statics with an initialiser in the per-file analysis', nstat, 30)

    # ---- R17.5 translation-unit relative indices in shared objects ----------------------------------------------------------
    # Suppression::fileIndex is an index into the file table of the translation unit in which the inline suppression was parsed; the suppression list
    # is shared by all files of the run.  Reading the index outside the code that handles that one translation unit's comments compares it with another
    # unit's table (0 is every unit's own source file), so a later file changes what is reported for an earlier one.
    ctx.rule('R17.5', 'the TU-relative Suppression::fileIndex is read only while the comments of that translation unit are processed')
    readers = sorted({f['name'] for f in F.all_fns() for a in f['acc'] if a['n'] == 'SuppressionList::Suppression::fileIndex' and a['a'] == 'r'})
    ALLOWED_READERS = {'addInlineSuppressions': 'runs once per translation unit on that unit\'s own comments (block begin/end matching)'}
    ctx.floor('R17.5 readers of Suppression::fileIndex', len(readers), 1)
    for r_ in readers:
        ok = r_ in ALLOWED_READERS
        ctx.ob('R17.5', 'fileindex-reader:%s' % r_, ok, ('%s reads Suppression::fileIndex: %s' % (r_, ALLOWED_READERS.get(r_))) if ok else
               ('%s reads Suppression::fileIndex: the index is relative to the translation unit in which the suppression was parsed, but the suppression list is shared by all '
                'files of a single-job run, so comparing it with the current file\'s indices lets one file mark or match the inline suppressions of another' % r_), 'lib/suppressions.h')

    # ---- R17.3 --------------------------------------------------------------------------------------------------------
    mutators = set()     # methods of option classes that write *this
    for k, (f, _, _) in T.items():
        cls = f.get('cls') or ''
        if cls.split('::')[0] in OPTION_CLASSES and any(a.get('th') and a['a'] != 'r' and not (a['a'].startswith('m:') and a['a'][2:] in READONLY) and a['a'] != 'e:as_const'
                                                         and a['n'].split('::')[0] in OPTION_CLASSES for a in f['acc']):
            mutators.add(f['name'])
    ctx.counts['mutating methods of option classes reachable from check()'] = len(mutators)
    nsites = 0
    for k, (f, _, _) in T.items():
        b = F.body(f)
        if b is None:
            continue
        if not any(a['n'].split('::')[0] in OPTION_CLASSES for a in f['acc']) and not any(c['f'].split('(')[0] in mutators for c in f['calls']):
            continue
        locals_ = {x['di']: x for x in walk(b['body']) if x.get('k') == 'VarDecl' and not (x.get('t') or '').rstrip().endswith('&') and not (x.get('t') or '').rstrip().endswith('*')}
        for x in walk(b['body']):
            site = None
            if x.get('k') == 'MemberExpr' and x.get('dk') == 'Field' and (x.get('n') or '').split('::')[0] in OPTION_CLASSES and x.get('a') not in (None, 'r', 'o') \
                    and not ((x.get('a') or '').startswith('m:') and x['a'][2:] in READONLY) and x.get('a') != 'e:as_const' and x.get('a') != 'a':
                site = ('write to %s (%s)' % (x['n'], x['a']), x)
            elif x.get('k') == 'CXXMemberCallExpr' and x.get('fn') in mutators:
                site = ('call of mutating method %s' % x['fn'], x['c'][0])
            if site is None:
                continue
            r = root_of(site[1])
            nsites += 1
            if r is not None and r.get('k') == 'CXXThisExpr' and f['name'] in mutators | {m for m in mutators}:
                continue    # a mutator working on its own object; its call sites are checked
            if r is not None and r.get('k') == 'CXXThisExpr' and (f.get('cls') or '').split('::')[0] in OPTION_CLASSES:
                continue
            ok = r is not None and r.get('k') == 'DeclRefExpr' and r.get('di') in locals_
            ctx.ob('R17.3', 'option-write:%s:%s' % (f['name'], (x.get('n') or x.get('fn'))), ok,
                   ('%s: %s on the local copy `%s`' % (f['name'], site[0], r.get('n'))) if ok else
                   ('%s: %s on an object that is not a local copy (%s): the shared options seen by the following files change' %
                    (f['name'], site[0], (r or {}).get('k'))), '%s:%s' % (f['file'], x['l']))
    ctx.floor('R17.3 writes to option objects in the per-file analysis', nsites, 5)
