"""C19  Incremental analysis is transparent across option changes.

Decides: every analysis option the property lists is an input of the cache key
(CppCheck::calculateHash and what it calls).  If an option's setting is not part of the
key, two runs that differ only in that option share a cache entry.

R19.1  table option -> Settings field; the table is re-verified against the command line
       parser on every run (the branch for the option literal must write that field,
       directly, through the callees of the branch, or through a local that is later
       stored into it); obligation: the field is read in calculateHash's call closure.
R19.2  -I is covered: every loaded header's tokens are hashed, and the include paths themselves are part of the key
       (__has_include probes headers that are never loaded)
       (Preprocessor::mFileCache read in the closure).
"""
from .common.facts import walk, children, AnalysisBroken

# option literal(s) -> the field that carries the option into the analysis.  One line of reason each.
TABLE = [
    (['--enable='], ['Settings::severity', 'Settings::checks'], 'enabled severities and checks'),
    (['--disable='], ['Settings::severity', 'Settings::checks'], 'disabled severities and checks'),
    (['--inconclusive'], ['Settings::certainty'], 'inconclusive findings on/off'),
    (['-D'], ['Settings::userDefines'], 'macro definitions select the configuration'),
    (['-U'], ['Settings::userUndefs'], 'undefined macros remove configurations'),
    (['--std='], ['Settings::standards'], 'language standard changes tokenizing and checks'),
    (['--language=', '-x'], ['CmdLineParser::mEnforcedLang'], 'enforced language; reaches the analysis as FileWithDetails::mLang'),
    (['--platform='], ['Settings::platform'], 'type sizes / signedness'),
    (['--library='], ['Settings::libraries'], 'library configurations loaded'),
    (['--max-configs='], ['Settings::maxConfigsOption'], 'number of configurations analysed'),
    (['--check-level='], ['Settings::checkLevel'], 'analysis depth'),
    (['-f', '--force'], ['Settings::force'], 'all configurations'),
]
# what "the key reads this option" means, per carrier field
HASH_READS = {
    'CmdLineParser::mEnforcedLang': ['FileWithDetails::mLang', 'Settings::enforcedLang', 'Preprocessor::mLang'],
}


def literals(n):
    return {x.get('v') for x in walk(n) if x.get('k') == 'StringLiteral'}


def option_branches(body, lits):
    """then-blocks of `if (strcmp/strncmp(argv[i], "<lit>") == 0 ...)`."""
    out = []
    for n in walk(body):
        if n.get('k') == 'IfStmt' and n.get('cond') is not None and n.get('then') is not None:
            if literals(n['cond']) & set(lits):
                # the condition must be a comparison of the argument against the literal, not a message
                out.append(n)
    return out


def run(ctx):
    F = ctx.facts
    r19_5(ctx)
    ctx.rule('R19.1', 'every option named by the property writes a carrier field in CmdLineParser::parseFromArgs '
                      '(table verified against the parser) and that field is read in the call closure of '
                      'CppCheck::calculateHash')
    ctx.rule('R19.2', 'include paths are covered through the hashed header tokens: Preprocessor::mFileCache and '
                      'Preprocessor::mTokens are read in the closure; suppressions through Suppressions::nomsg')
    parse = F.one('CmdLineParser::parseFromArgs')
    pbody = F.body(parse)['body']
    calc = [f for f in F.find('CppCheck::calculateHash')]
    if len(calc) != 1:
        raise AnalysisBroken('anchor CppCheck::calculateHash: %d definitions' % len(calc))
    calc = calc[0]
    # closure of calculateHash restricted to repo functions (depth unbounded; the closure is small)
    reach = F.reachable([calc])
    reads = {}
    for k, (fn, _, _) in reach.items():
        for a in fn['acc']:
            reads.setdefault(a['n'], (fn, a))
    ctx.counts['hash_closure_functions'] = len(reach)
    ctx.counts['fields_read_by_hash'] = len(reads)
    if len(reach) < 3 or 'Settings::userDefines' not in reads and 'Settings::severity' not in reads:
        pass  # no floor on content: the obligations below decide

    # transitive non-read field accesses per function (depth 3) for "the branch writes F through a callee"
    def writes_of_fn(fn, depth, seen):
        out = set()
        k = F.key(fn)
        if k in seen:
            return out
        seen.add(k)
        for a in fn['acc']:
            if a['a'] != 'r' and a['a'] != 'a':
                out.add(a['n'])
        if depth > 0:
            for g, _ in F.callees(fn):
                if g['file'].startswith(('lib/', 'cli/', 'frontend/')):
                    out |= writes_of_fn(g, depth - 1, seen)
        return out

    def writes_in(node):
        direct, via = set(), set()
        locals_written = set()
        for x in walk(node):
            k = x.get('k')
            if k == 'MemberExpr' and x.get('dk') == 'Field' and x.get('a') not in (None, 'r'):
                direct.add(x['n'])
                # x.y.z = ..: the access is recorded on the outer member; add enclosing objects' fields too
                for y in walk(x):
                    if y.get('k') == 'MemberExpr' and y.get('dk') == 'Field':
                        direct.add(y['n'])
            if k in ('CallExpr', 'CXXMemberCallExpr', 'CXXOperatorCallExpr') and x.get('fid'):
                for g in F.resolve(parse, x['fid']):
                    if g['file'].startswith(('lib/', 'cli/', 'frontend/')):
                        ws = writes_of_fn(g, 3, set())
                        # a method call x.f.method(): writes of `this` members belong to object f
                        via |= ws
                        callee = x['c'][0] if x.get('c') else None
                        if callee and callee.get('k') == 'MemberExpr' and ws:
                            for y in walk(callee):
                                if y.get('k') == 'MemberExpr' and y.get('dk') == 'Field':
                                    direct.add(y['n'])
            if k == 'BinaryOperator' and x.get('op', '').endswith('=') and x.get('op') not in ('==', '!=', '<=', '>='):
                lhs = x['c'][0]
                if lhs.get('k') == 'DeclRefExpr' and lhs.get('dk') == 'Var':
                    locals_written.add(lhs.get('di') or lhs.get('n'))
            if k == 'CXXOperatorCallExpr' and x.get('op') == '=' and x.get('c') and len(x['c']) > 1:
                lhs = x['c'][1]
                if lhs.get('k') == 'DeclRefExpr' and lhs.get('dk') == 'Var':
                    locals_written.add(lhs.get('di') or lhs.get('n'))
        return direct, via, locals_written

    def stored_from_local(di):
        """fields written by a statement/call elsewhere in parseFromArgs that mentions local `di`."""
        out = set()
        for x in walk(pbody):
            if x.get('k') in ('CallExpr', 'CXXMemberCallExpr', 'CXXOperatorCallExpr', 'BinaryOperator'):
                mentions = any(y.get('k') == 'DeclRefExpr' and y.get('di') == di for y in walk(x))
                if not mentions:
                    continue
                d, v, _ = writes_in(x)
                out |= d
        return out

    nopt = 0
    for lits, fields, why in TABLE:
        brs = option_branches(pbody, lits)
        if not brs:
            raise AnalysisBroken('option %s: no parser branch compares the argument with this literal in '
                                 'CmdLineParser::parseFromArgs (table out of date)' % '/'.join(lits))
        nopt += 1
        direct, via, loc = set(), set(), set()
        for b in brs:
            d, v, l = writes_in(b['then'])
            direct |= d
            via |= v
            loc |= l
        for di in loc:
            direct |= stored_from_local(di)
        for fld in fields:
            if fld not in direct and fld not in via:
                raise AnalysisBroken('option %s: the parser branch (cmdlineparser.cpp:%d) no longer writes %s; it writes %s '
                                     '(table out of date: re-derive the carrier field)'
                                     % ('/'.join(lits), brs[0]['l'], fld, sorted(direct)[:8]))
            wanted = HASH_READS.get(fld, [fld])
            hit = [w for w in wanted if w in reads]
            if hit and hit[0] == 'Preprocessor::mLang':
                # the preprocessor's language is the file's language only if it is constructed from file.lang()
                ci = F.one('CppCheck::checkInternal')
                ctor_ok = False
                for x in walk(F.body(ci)['body']):
                    if x.get('k') in ('CXXConstructExpr', 'CXXTemporaryObjectExpr') and x.get('cls') == 'Preprocessor':
                        if any(y.get('fn') == 'FileWithDetails::lang' for y in walk(x)):
                            ctor_ok = True
                if not ctor_ok:
                    hit = []
            where = '%s:%d' % (calc['file'], calc['line'])
            if hit:
                fn, a = reads[hit[0]]
                ctx.ob('R19.1', 'field:%s' % fld, True,
                       'option %s -> %s is read by the cache key in %s (%s:%d)' % ('/'.join(lits), fld, fn['name'], fn['file'], a['l']),
                       where)
            else:
                ctx.ob('R19.1', 'field:%s' % fld, False,
                       'option %s (%s) is stored in %s, which CppCheck::calculateHash and its %d callees never read: '
                       'two runs sharing a build dir that differ only in this option share one cache entry'
                       % ('/'.join(lits), why, fld, len(reach) - 1),
                       where, {'parser_branch_line': brs[0]['l'], 'closure': sorted(fn['name'] for fn, _, _ in reach.values())[:40]})
    ctx.floor('options_in_table_verified_against_parser', nopt, 12)

    for fld, key, what in [('Preprocessor::mFileCache', 'headers', '-I / header contents: tokens of every loaded header'),
                           ('Preprocessor::mTokens', 'tokens', 'the file\'s own tokens'),
                           ('Suppressions::nomsg', 'suppressions', 'suppressions (--suppress, files, inline)'),
                           ('Settings::includePaths', 'include-paths', '-I itself: __has_include probes headers that are never loaded, so the loaded tokens do not cover it')]:
        ok = fld in reads
        ctx.ob('R19.2', 'input:%s' % key, ok,
               ('%s: %s is read by the key' if ok else '%s: %s is NOT read by the cache key closure') % (what, fld),
               '%s:%d' % (calc['file'], calc['line']))

    # R19.3 each gate-able severity flag is part of the key (unless the whole mask is)
    ctx.rule('R19.3', 'each of the five optional severities is tested in CppCheck::calculateHash (or the whole mask is '
                      'written through intValue())')
    # the key text is composed in calculateHash and in the helpers it calls in its own file (an "extract function" refactoring keeps the rule's view)
    helpers = [fn for k, (fn, _, _) in reach.items() if fn['file'] == calc['file'] and F.body(fn) is not None and F.key(fn) != F.key(calc)]
    body = {'k': 'CompoundStmt', 'l': calc['line'], 'c': [F.body(calc)['body']] + [F.body(h)['body'] for h in sorted(helpers, key=lambda h: h['line'])]}
    ctx.counts['key-composing functions'] = 1 + len(helpers)
    enums = {x['n'] for x in walk(body) if x.get('k') == 'DeclRefExpr' and x.get('dk') == 'EnumConstant'}
    whole = any(x.get('fn', '').endswith('::intValue') and any(y.get('n') == 'Settings::severity' for y in walk(x))
                for x in walk(body) if x.get('k') == 'CXXMemberCallExpr')
    for sev in ('warning', 'style', 'performance', 'portability', 'information'):
        ok = whole or ('Severity::' + sev) in enums
        ctx.ob('R19.3', 'severity:' + sev, ok,
               'severity flag %s %s the cache key' % (sev, 'is part of' if ok else 'is NOT part of'),
               '%s:%d' % (calc['file'], calc['line']))

    # R19.4 boolean option flags are encoded injectively: position-coded (cond ? 'x' : 'y' with two different literals of
    # equal length, always appended) or as the whole mask.  A flag that is appended only when set must use a literal marker
    # that no other conditional append uses; a computed marker (e.g. first letter of severityToString) cannot be shown unique.
    ctx.rule('R19.4', 'option flags in the cache key are position-coded or use pairwise distinct literal markers')
    from .common.facts import walk_parents, strip_all, call_args
    cond_markers = []
    nflags = 0
    for x, parents in walk_parents(body):
        if x.get('k') == 'CXXMemberCallExpr' and 'SimpleEnableGroup' in (x.get('fn') or '') and (x.get('fn') or '').endswith('::isEnabled'):
            nflags += 1
            # nearest enclosing conditional construct
            ok = None
            what = ''
            for pnode in reversed(parents):
                pk = pnode.get('k')
                if pk in ('ImplicitCastExpr', 'UnaryOperator', 'ParenExpr'):
                    continue
                if pk == 'BinaryOperator' and pnode.get('op') in ('&&', '||'):
                    continue
                if pk == 'ConditionalOperator':
                    a, b = strip_all(pnode['c'][1]), strip_all(pnode['c'][2])
                    lits = [n_.get('v') for n_ in (a, b) if n_ is not None and n_.get('k') in ('CharacterLiteral', 'StringLiteral')]
                    if len(lits) == 2 and lits[0] != lits[1] and len(str(lits[0])) == len(str(lits[1])) if all(isinstance(v, str) for v in lits) else (len(lits) == 2 and lits[0] != lits[1]):
                        ok = True
                        what = 'position-coded (two distinct literals)'
                    else:
                        ok = False
                        what = 'conditional with non-literal or identical branches'
                    break
                if pk == 'IfStmt':
                    # conditional append: collect what is appended in the then-branch
                    apps = []
                    for y in walk(pnode.get('then') or {}):
                        if y.get('k') == 'CXXOperatorCallExpr' and y.get('op') == '<<':
                            apps.append(strip_all(y['c'][2]) if len(y.get('c', ())) > 2 else None)
                    lit = [a_.get('v') for a_ in apps if a_ is not None and a_.get('k') in ('CharacterLiteral', 'StringLiteral')]
                    if apps and len(lit) == len(apps):
                        cond_markers.append((tuple(lit), x))
                        ok = True
                        what = 'conditional append of literal marker %r' % (lit,)
                    else:
                        ok = False
                        what = 'appended only when the flag is set, with a marker computed at run time: two different flag sets can produce the same key text'
                    break
                if pk in ('CompoundStmt', 'ForStmt', 'CXXForRangeStmt'):
                    break
            if ok is None:
                continue
            ctx.ob('R19.4', 'flag-encoding#%d' % nflags, ok,
                   ('flag test at line %s is %s' % (x['l'], what)) if ok else
                   ('flag test at line %s: %s' % (x['l'], what)), '%s:%s' % (calc['file'], x['l']))
    seen_m = {}
    for lit, x in cond_markers:
        if lit in seen_m:
            ctx.ob('R19.4', 'flag-marker-unique:%s' % (lit,), False,
                   'two conditional appends use the same marker %r (lines %s and %s): the flag sets {A} and {B} give the same key' % (lit, seen_m[lit]['l'], x['l']),
                   '%s:%s' % (calc['file'], x['l']))
        seen_m[lit] = x
    ctx.counts['flag tests in calculateHash'] = nflags
    r19_6(ctx, body, calc)


def r19_6(ctx, body, calc):
    """R19.6  nothing written into the key text is overwritten: a std::ostringstream / std::stringstream constructed from a string starts writing at
    offset 0 unless it is opened with std::ios_base::ate / app; everything the later `<<` writes replaces the beginning of the initial text, so the options
    encoded there are not part of the key."""
    from .common.facts import strip_all, call_args
    ctx.rule('R19.6', 'no string stream in the key composition is constructed from initial text and then written from offset 0')
    n = 0
    for x in walk(body):
        if x.get('k') == 'VarDecl' and x.get('init') is not None and any(t in (x.get('t') or '') for t in ('ostringstream', 'stringstream')):
            n += 1
            ctor = [y for y in walk(x['init']) if y.get('k') == 'CXXConstructExpr' and any(t in (y.get('cls') or y.get('t') or '') for t in ('ostringstream', 'stringstream'))]
            if not ctor:
                continue
            args = [a for a in call_args(ctor[0]) if strip_all(a).get('k') != 'DefaultArg']
            has_text = any('string' in (strip_all(a).get('t') or '') or 'char' in (strip_all(a).get('t') or '') for a in args)
            ate = any(y.get('k') == 'DeclRefExpr' and (y.get('n') or '').split('::')[-1] in ('ate', 'app') for a in args for y in walk(a))
            written = any(y.get('k') == 'CXXOperatorCallExpr' and y.get('op') == '<<' and any(z.get('k') == 'DeclRefExpr' and z.get('di') == x.get('di') for z in walk(y)) for y in walk(body)) or \
                ('ostringstream' in (x.get('t') or '') and
                 any(y.get('k') in ('CallExpr', 'CXXMemberCallExpr') and any(strip_all(a).get('k') == 'DeclRefExpr' and strip_all(a).get('di') == x.get('di') for a in call_args(y)) for y in walk(body)))
            ok = not (has_text and not ate and written)
            ctx.ob('R19.6', 'stream-init:%s' % x.get('n'), ok, ('string stream %s starts empty or appends' % x.get('n')) if ok else
                   ('the string stream %s (line %s) is constructed from initial text without std::ios_base::ate and then written: the write position starts at 0, so the later output '
                    'overwrites the beginning of the option text and those options no longer influence the cache key' % (x.get('n'), x['l'])), '%s:%s' % (calc['file'], x['l']))
    ctx.floor('R19.6 string streams in the key composition', n, 1)


def r19_5(ctx):
    """R19.5  the suppression part of the key: SuppressionList::dump(out, filePath), which CppCheck::calculateHash uses to fold the active
    suppressions into a file's key, may leave a suppression out only if it is an inline suppression: the file name of every other suppression is
    a pattern (glob, relative tail, directory) matched with PathMatch, so no comparison of names can show that it does not apply to the file."""
    from .common.facts import walk, walk_parents, strip
    from .C23 import conjuncts
    F = ctx.facts
    ctx.rule('R19.5', 'the suppression dump used for the key omits only inline suppressions of other files')
    cands = [f for f in F.find('SuppressionList::dump') if len(f.get('params') or []) == 2]
    if len(cands) != 1:
        raise AnalysisBroken('SuppressionList::dump(std::ostream&, const std::string&): %d candidates' % len(cands))
    d = cands[0]
    body = F.body(d)['body']
    skips = []
    for x, parents in walk_parents(body):
        if x.get('k') in ('ContinueStmt', 'BreakStmt', 'ReturnStmt'):
            guards = [p for p in parents if p.get('k') == 'IfStmt']
            skips.append((x, guards))
    n = 0
    for x, guards in skips:
        n += 1
        cj = []
        for g in guards:
            cj += conjuncts(g.get('cond'))
        inline = any(c is not None and c.get('k') == 'MemberExpr' and c.get('n') == 'SuppressionList::Suppression::isInline' for c in [strip(c_) for c_ in cj])
        ctx.ob('R19.5', 'dump-skip#%d' % (n - 1), inline,
               ('the skip at line %s applies to inline suppressions only' % x['l']) if inline else
               ('SuppressionList::dump leaves suppressions out of the key at line %s under a condition that does not require isInline: a command-line / file suppression '
                'whose pattern matches the analysed file through PathMatch (other spelling, directory, glob) no longer changes the key, so removing it replays the '
                'cached unmatchedSuppression' % x['l']), '%s:%s' % (d['file'], x['l']))
    ctx.floor('R19.5 skip statements in SuppressionList::dump', n, 1)
