"""C07  Expression trees follow the operator grammar (binary precedence ladder).

Decides: the binary-operator precedence levels and associativity encoded by the compile* ladder of
lib/tokenlist.cpp are those of the C/C++ expression grammar.  If `%` sat on the additive level or `=`
were left-associative, every such expression would be grouped wrongly.  Unary / postfix / cast /
template-`<` disambiguation (compilePrecedence2/3, token-context dependent) is not decided.

R07.1  starting at the function compileExpression delegates to, every ladder function F has the shape
       NEXT(tok,state); while (tok) { if (COND) compileBinOp(tok,state,ARG) ... else break; }.  The chain of NEXT
       calls yields the levels from loosest to tightest; the operator spellings tested on `tok` in each COND
       (Token::Match / simpleMatch first-token alternatives, tok->str() == "..", tok->isAssignmentOp()) yield the
       operator set of the level; ARG == NEXT means left-associative, ARG == F right-associative.  The extracted table
       is compared level by level with the grammar ([expr.comma] ... [expr.mptr.oper]).
R07.2  the entry: compileExpression calls the loosest level unconditionally (apart from the depth guard).
"""
import re

from .common.facts import walk, strip, strip_all, call_args, AnalysisBroken

# loosest -> tightest; '.*' stands for the pointer-to-member operators (->* is rewritten to . * before the AST is built)
GRAMMAR = [
    ({','}, 'left', 'comma'),
    ({'=', '?', ':'}, 'right', 'assignment / conditional'),
    ({'||'}, 'left', 'logical or'),
    ({'&&'}, 'left', 'logical and'),
    ({'|'}, 'left', 'inclusive or'),
    ({'^'}, 'left', 'exclusive or'),
    ({'&'}, 'left', 'and'),
    ({'==', '!='}, 'left', 'equality'),
    ({'<', '<=', '>=', '>'}, 'left', 'relational'),
    ({'<=>'}, 'left', 'three-way comparison'),
    ({'<<', '>>'}, 'left', 'shift'),
    ({'+', '-'}, 'left', 'additive'),
    ({'*', '/', '%'}, 'left', 'multiplicative'),
    ({'.*'}, 'left', 'pointer to member'),
]
# operator spellings handled on a level that are not grammar operators, with the reason
EXTRA = {
    ('comma', ';'): 'a `;` inside the parentheses of a function-call-like construct (for-header passed to a macro) is treated as a separator',
}


ALL_OPS = set().union(*[g[0] for g in GRAMMAR])


def first_alternatives(pattern):
    """operator spellings the first token of a Token::Match pattern can have"""
    first = pattern.split(' ')[0]
    m = re.match(r'^\[(.+)\]$', first)
    if m:
        return set(m.group(1))
    out = set()
    KW = {'%oror%': {'||'}, '%or%': {'|'}, '%assign%': {'='}, '%comp%': {'<', '<=', '>', '>=', '==', '!='}}
    # `%oror%`-style keywords are needed because | is the alternative separator of the pattern language
    parts = re.findall(r'%\w+%|[^|]+', first)
    for a in parts:
        if a in KW:
            out |= KW[a]
        elif not re.match(r'^%\w+%$', a):
            out.add(a)
    return out


def run(ctx):
    F = ctx.facts
    ctx.rule('R07.1', 'the compile* ladder encodes the grammar\'s binary precedence levels and associativity')
    ctx.rule('R07.2', 'compileExpression enters the ladder at its loosest level')
    fns = {f['name']: f for f in F.all_fns() if f['file'] == 'lib/tokenlist.cpp' and f['name'].startswith('compile') and F.body(f) is not None}
    if 'compileExpression' not in fns:
        raise AnalysisBroken('compileExpression not found in lib/tokenlist.cpp')
    ce = fns['compileExpression']
    calls = [x for x in walk(F.body(ce)['body']) if x.get('k') == 'CallExpr' and (x.get('fn') or '') in fns]
    if len(calls) != 1:
        raise AnalysisBroken('compileExpression: expected one delegation, found %d' % len(calls))
    entry = calls[0]['fn']
    ctx.ob('R07.2', 'entry', entry in fns, 'compileExpression delegates to %s' % entry, '%s:%d' % (ce['file'], ce['line']))

    def level_of(f):
        """(NEXT, [(ops, ARG, line)], has_break_else) or None if f does not have the ladder shape"""
        body = F.body(f)['body']
        sts = body.get('c', ())
        if len(sts) < 2:
            return None
        first = strip(sts[0])
        if first.get('k') != 'CallExpr' or first.get('fn') not in fns:
            return None
        loop = next((s for s in sts[1:] if s.get('k') == 'WhileStmt'), None)
        if loop is None:
            return None
        tokparam = f['params'][0]['di'] if f.get('params') else None
        branches = []
        node = None
        for s in (loop.get('body') or {}).get('c', ()):
            if s.get('k') == 'IfStmt':
                node = s
                break
        while node is not None and node.get('k') == 'IfStmt':
            ops = set()
            cond = node.get('cond')
            for y in walk(cond):
                if y.get('k') == 'CallExpr' and y.get('fn') in ('Token::Match', 'Token::simpleMatch'):
                    a = call_args(y)
                    if a and strip(a[0]).get('di') == tokparam:
                        lit = next((z.get('v') for z in walk(a[1]) if z.get('k') == 'StringLiteral'), None)
                        if lit is not None:
                            if y['fn'] == 'Token::simpleMatch' and lit == '. *':
                                ops.add('.*')
                            else:
                                ops |= first_alternatives(lit)
                if y.get('k') == 'CXXOperatorCallExpr' and y.get('op') == '==':
                    lit = next((z.get('v') for z in walk(y) if z.get('k') == 'StringLiteral'), None)
                    lhs = y['c'][1]
                    if lit is not None and any(z.get('k') == 'CXXMemberCallExpr' and z.get('fn') == 'Token::str' and
                                               any(w.get('di') == tokparam for w in walk(z['c'][0])) and not any(w.get('k') == 'CXXMemberCallExpr' and w.get('fn') != 'Token::str' for w in walk(z['c'][0]))
                                               for z in walk(lhs)):
                        ops.add(lit)
                if y.get('k') == 'CXXMemberCallExpr' and y.get('fn') == 'Token::isAssignmentOp' and any(w.get('di') == tokparam for w in walk(y['c'][0])):
                    ops.add('=')
            arg = None
            for y in walk(node.get('then') or {}):
                if y.get('k') == 'CallExpr' and y.get('fn') == 'compileBinOp':
                    a = call_args(y)
                    for z in walk(a[2]):
                        if z.get('k') == 'DeclRefExpr' and z.get('dk') == 'Function':
                            arg = z['n']
            if arg is not None:
                branches.append((ops, arg, node['l']))
            node = node.get('else')
        return first['fn'], branches

    chain = []
    cur = entry
    seen = set()
    while cur in fns and cur not in seen:
        seen.add(cur)
        lv = level_of(fns[cur])
        if lv is None:
            break
        if not any(ops & ALL_OPS for ops, _, _ in lv[1]):
            break       # unary / postfix levels: token-context dependent, not part of the binary ladder
        chain.append((cur, lv))
        cur = lv[0]
    ctx.floor('R07.1 ladder levels', len(chain), 12)
    where0 = '%s:%d' % (ce['file'], ce['line'])
    if len(chain) != len(GRAMMAR):
        ctx.ob('R07.1', 'levels', False, 'the ladder has %d binary levels (%s), the grammar has %d' % (len(chain), ' -> '.join(c[0] for c in chain), len(GRAMMAR)), where0)
    else:
        ctx.ob('R07.1', 'levels', True, 'the ladder has the grammar\'s %d binary levels and ends in %s' % (len(chain), cur), where0)
    for i, (name, (nxt, branches)) in enumerate(chain[:len(GRAMMAR)]):
        want_ops, want_assoc, gname = GRAMMAR[i]
        f = fns[name]
        where = '%s:%d' % (f['file'], f['line'])
        have = set()
        for ops, arg, line in branches:
            have |= ops
        extra = {o for o in have - want_ops if (gname, o) not in EXTRA}
        missing = want_ops - have
        ok = not extra and not missing
        ctx.ob('R07.1', 'level:%d:%s' % (i, gname.replace(' ', '-')), ok,
               ('%s handles %s = the %s level' % (name, sorted(have & want_ops), gname)) if ok else
               ('%s is level %d of the ladder (%s in the grammar, operators %s) but handles %s%s%s: expressions mixing these operators are grouped with the wrong precedence'
                % (name, i, gname, sorted(want_ops), sorted(have), (', missing %s' % sorted(missing)) if missing else '', (', foreign %s' % sorted(extra)) if extra else '')), where)
        for ops, arg, line in branches:
            if not (ops & want_ops):
                continue
            assoc = 'right' if arg == name else 'left' if arg == nxt else 'other(%s)' % arg
            ok = assoc == want_assoc
            ctx.ob('R07.1', 'assoc:%d:%s' % (i, '_'.join(sorted(ops & want_ops))), ok,
                   ('%s: %s is %s-associative (right operand compiled by %s)' % (name, sorted(ops & want_ops), assoc, arg)) if ok else
                   ('%s compiles the right operand of %s with %s, i.e. %s-associative; the grammar says %s-associative' % (name, sorted(ops & want_ops), arg, assoc, want_assoc)),
                   '%s:%s' % (f['file'], line))
