"""C34  Addon results are relayed faithfully (robust decoding + relay structure).

Decides: ill-typed addon output cannot crash cppcheck on the per-file or the whole-program path, and
every relayed finding gets its id from <addon>-<errorId>, passes the severity filter, carries the
addon's location/message fields and goes through the suppression-aware logger.

R34.1  every picojson get<T>() in CppCheck::executeAddons / executeAddon is dominated by is<T>() on the
       same value OR (R34.2) every call chain from main() to that function has a handler for the
       std::runtime_error that picojson raises on a type mismatch.
R34.2  containment per context: the exception is caught (checkInternal / checkClang outer try for the
       per-file call, a handler in executeAddonsWholeProgram for the whole-program call).
R34.3  relay structure inside CppCheck::executeAddons: errmsg.id is assigned the concatenation of
       obj["addon"], "-" and obj["errorId"]; message and severity come from obj["message"] /
       obj["severity"]; file/linenr/column feed the location; the reportErr call is dominated by the
       severity test (severity.isEnabled(errmsg.severity) true, or the premium-id exception) and its
       receiver is CppCheck::mErrorLogger (the suppression-aware wrapper), never mErrorLoggerDirect;
       the ctu summary branch appends to ctuInfo, which executeAddonsWholeProgram hands on.
"""
from .common.facts import walk, walk_parents, strip, strip_all, call_args, AnalysisBroken
from .common.throws import Throws
from .common.jsonguard import unguarded_gets
from .common import paths


def lits(n):
    return [x.get('v') for x in walk(n) if x.get('k') == 'StringLiteral']


def run(ctx):
    from .C15 import internal_passthrough
    ctx.rule('R34.6', 'addon summaries (internal ctuinfo messages) pass the executors\' gate unfiltered')
    internal_passthrough(ctx, 'R34.6')
    F = ctx.facts
    ctx.rule('R34.1', 'picojson get<T>() on addon output is guarded by is<T>() or the exception is contained (R34.2)')
    ctx.rule('R34.2', 'std::runtime_error from ill-typed addon output meets a handler on every path from main()')
    ctx.rule('R34.3', 'relayed finding: id = addon-errorId, fields from the addon object, severity filter dominates reportErr, '
                      'receiver is the suppression-aware logger')
    exs = [f for f in F.find('CppCheck::executeAddons') if any('std::vector' in p_['t'] for p_ in f['params'])]
    if len(exs) != 1:
        raise AnalysisBroken('CppCheck::executeAddons(vector<string>, string): %d definitions' % len(exs))
    ex = exs[0]
    body = F.body(ex)['body']
    where = '%s:%d' % (ex['file'], ex['line'])

    # R34.1 / R34.2
    T = Throws(F)
    ung, tot = unguarded_gets(F, ex)
    ctx.floor('picojson get<T>() calls in CppCheck::executeAddons', tot, 12)
    escapes = 'std::runtime_error' in T.escape.get(F.key(ex), {})
    # does it reach main?
    mains = [f for f in F.find('main') if f['file'] == 'cli/main.cpp']
    fns = T.byk
    S = {F.key(mains[0])}
    work = [F.key(mains[0])]
    par = {}
    while work:
        hk = work.pop()
        for g, c in F.callees(fns[hk], all_sites=True):
            gk = F.key(g)
            if gk in fns and gk not in S and not T.caught('std::runtime_error', c.get('tr', ())):
                S.add(gk)
                par[gk] = (hk, c['l'])
                work.append(gk)
    contained = F.key(ex) not in S
    chain = []
    k = F.key(ex)
    while k in par:
        chain.append('%s:%s' % (fns[par[k][0]]['name'], par[k][1]))
        k = par[k][0]
    ctx.ob('R34.2', 'contained:executeAddons', contained,
           'every call chain from main() to CppCheck::executeAddons has a std::runtime_error handler' if contained else
           'std::runtime_error raised by picojson on ill-typed addon output in CppCheck::executeAddons reaches main() uncaught via '
           + ' <- '.join(chain[:6]), where)
    for n, sg in ung:
        import re as _re
        key = 'get:field:%s' % _re.sub(r'v:\d+:\d+', 'element', (sg or '?').split('[')[-1].rstrip(']'))
        ctx.ob('R34.1', key, contained,
               ('unguarded get<T>() on %s is contained by a handler on every path (malformed output becomes internalError)' % sg) if contained else
               ('get<T>() on %s is not dominated by is<T>() and the type-mismatch exception is not contained' % sg),
               '%s:%s' % (ex['file'], n.get('l') if n else '?'))
    # executeAddon (runs the process, parses the output lines)
    for f in F.find('executeAddon'):
        u2, t2 = unguarded_gets(F, f)
        for n, sg in u2:
            import re as _re
            ctx.ob('R34.1', 'get:executeAddon:%s' % _re.sub(r'v:\d+:\d+', 'element', sg or '?'), F.key(f) not in S,
                   'get<T>() in executeAddon guarded or contained' if F.key(f) not in S else
                   'unguarded get<T>() on %s in executeAddon is not contained' % sg, '%s:%s' % (f['file'], n.get('l') if n else '?'))
        ctx.counts['picojson get calls in executeAddon'] = t2

    # R34.3 relay structure -------------------------------------------------------------------------------
    # (a) id assignment
    id_ok = False
    id_node = None
    for x in walk(body):
        if x.get('k') == 'CXXOperatorCallExpr' and x.get('op') == '=' and len(x.get('c', ())) > 2:
            l = strip(x['c'][1])
            if l.get('k') == 'MemberExpr' and l.get('n') == 'ErrorMessage::id':
                id_node = x
                ls = lits(x['c'][2])
                order = [v for v in ls if v in ('addon', '-', 'errorId')]
                id_ok = order == ['addon', '-', 'errorId']
    if id_node is None:
        raise AnalysisBroken('no assignment to ErrorMessage::id in CppCheck::executeAddons')
    ctx.ob('R34.3', 'id-composition', id_ok,
           'errmsg.id = obj["addon"] + "-" + obj["errorId"]' if id_ok else
           'errmsg.id is not composed as <addon>-<errorId> (string literals found: %s)' % lits(id_node['c'][2]),
           '%s:%s' % (ex['file'], id_node['l']))
    # (b) field sources: message, severity, file/linenr/column
    all_lits = set(lits(body))
    for fld in ('message', 'severity', 'file', 'linenr', 'column', 'addon', 'errorId'):
        ctx.ob('R34.3', 'field:%s' % fld, fld in all_lits,
               ('addon field "%s" is read' % fld) if fld in all_lits else ('addon field "%s" is never read: it cannot be relayed' % fld), where)
    msg_ok = any(x.get('k') == 'CXXMemberCallExpr' and x.get('fn') == 'ErrorMessage::setmsg' and 'message' in lits(x) for x in walk(body))
    ctx.ob('R34.3', 'message-source', msg_ok, 'errmsg.setmsg(obj["message"])' if msg_ok else 'the message is not taken from obj["message"]', where)
    sev_ok = False
    for x in walk(body):
        if x.get('k') == 'BinaryOperator' and x.get('op') == '=':
            l = strip(x['c'][0])
            if l.get('k') == 'MemberExpr' and l.get('n') == 'ErrorMessage::severity' and any(y.get('fn') == 'severityFromString' for y in walk(x['c'][1])):
                sev_ok = True
    ctx.ob('R34.3', 'severity-source', sev_ok, 'errmsg.severity = severityFromString(obj["severity"])' if sev_ok else
           'errmsg.severity is not derived from the addon\'s severity string', where)

    # (c) reportErr comes after the severity filter; the "disabled" arm falls through only for premium ids
    def is_sev_enabled_call(n0):
        return n0 is not None and n0.get('k') == 'CXXMemberCallExpr' and (n0.get('fn') or '').endswith('::isEnabled') and \
            any(y.get('k') == 'MemberExpr' and y.get('n') == 'ErrorMessage::severity' for y in walk(n0))

    gate_if = None
    gate_parent = None
    for x, parents in walk_parents(body):
        if x.get('k') == 'IfStmt' and x.get('cond') is not None:
            c0 = strip(x['cond'])
            neg = False
            while c0 is not None and c0.get('k') == 'UnaryOperator' and c0.get('op') == '!':
                neg = not neg
                c0 = strip(c0['c'][0])
            if is_sev_enabled_call(c0):
                gate_if = (x, neg)
                gate_parent = parents
    reports = [n for n in walk(body) if n.get('k') == 'CXXMemberCallExpr' and n.get('fn') == 'ErrorLogger::reportErr' and
               any(y.get('k') == 'DeclRefExpr' and y.get('n') == 'errmsg' for a in call_args(n) for y in walk(a)) and n['l'] > id_node['l']]
    if not reports:
        raise AnalysisBroken('no reportErr(errmsg) after the id assignment in CppCheck::executeAddons')
    if gate_if is None:
        ctx.ob('R34.3', 'severity-filter', False, 'the relay of addon findings is not gated by mSettings.severity.isEnabled(errmsg.severity)',
               '%s:%s' % (ex['file'], reports[0]['l']))
    else:
        gi, neg = gate_if
        disabled_arm = gi.get('then') if neg else gi.get('else')

        def cond2(n, truth):
            n0 = strip(n)
            if n0 is not None and n0.get('k') == 'CXXMemberCallExpr' and n0.get('fn') == 'CppCheck::isPremiumCodingStandardId' and truth:
                return ('premium-id',)
            return ()
        m = paths.Must(cond=cond2)
        out, br, co = m.stmt(disabled_arm, frozenset()) if disabled_arm is not None else (frozenset(), [], [])
        arm_ok = disabled_arm is not None and (out is None or 'premium-id' in out)
        ctx.ob('R34.3', 'severity-filter:disabled-arm', arm_ok,
               'a finding whose severity is disabled is dropped unless its id is an explicitly enabled premium coding-standard id' if arm_ok else
               'the arm for a disabled severity falls through to reportErr without the premium-id exception: findings of disabled severities are relayed',
               '%s:%s' % (ex['file'], gi['l']))
        for i, n in enumerate(reports):
            after = n['l'] > gi['l']
            ctx.ob('R34.3', 'severity-filter:order#%d' % i, after,
                   'reportErr(errmsg) is placed after the severity filter' if after else 'reportErr(errmsg) precedes the severity filter',
                   '%s:%s' % (ex['file'], n['l']))
    for i, n in enumerate(reports):
        recv = strip(n['c'][0]['c'][0]) if n['c'][0].get('c') else None
        rn = recv.get('n') if recv else None
        ctx.ob('R34.3', 'receiver#%d' % i, rn == 'CppCheck::mErrorLogger',
               'findings are relayed through CppCheck::mErrorLogger (suppressions, exit code, duplicates)' if rn == 'CppCheck::mErrorLogger' else
               'addon findings are reported through %s instead of the suppression-aware CppCheck::mErrorLogger' % rn,
               '%s:%s' % (ex['file'], n['l']))

    # (d) summaries forwarded: ctuInfo accumulated and written / passed on
    appends = [x for x in walk(body) if x.get('k') == 'CXXOperatorCallExpr' and x.get('op') == '+=' and
               strip(x['c'][1]).get('n') == 'ctuInfo']
    ctx.ob('R34.3', 'summary-forwarded', bool(appends) and 'summary' in all_lits,
           'addon "summary" records are appended to ctuInfo for the whole-program stage' if appends else
           'addon summaries are not accumulated for the whole-program stage', where)
    wp = F.one('CppCheck::executeAddonsWholeProgram')
    # every way through executeAddonsWholeProgram other than the "no addon configured" return runs the addons on the summaries
    from .common import paths as _p
    wb = F.body(wp)['body']

    def _gen(n):
        if n.get('k') == 'CXXMemberCallExpr' and n.get('fn') == 'CppCheck::executeAddons':
            return ('ran',)
        return ()

    def _cond(n, truth):
        n0 = strip(n)
        if n0 is not None and n0.get('k') == 'CXXMemberCallExpr' and (n0.get('fn') or '').endswith('::empty') and any(y.get('n') == 'Settings::addons' for y in walk(n0)):
            return (('no-addons', truth),)
        return ()
    def _no_handlers(n):
        """copy of the tree with every try statement replaced by its try block: a handler is entered only after the guarded call was made"""
        if isinstance(n, dict):
            if n.get('k') == 'CXXTryStmt' and n.get('c'):
                return _no_handlers(n['c'][0])
            return {k_: _no_handlers(v_) for k_, v_ in n.items()}
        if isinstance(n, list):
            return [_no_handlers(v_) for v_ in n]
        return n
    rr = _p.analyse(_no_handlers(wb), gen=_gen, cond=_cond)
    exits = [(k_, n_, st_) for k_, n_, st_ in rr.exits if k_ in ('return', 'end') and ('no-addons', True) not in st_]
    ok = bool(exits) and all('ran' in st_ for _, _, st_ in exits)
    ctx.ob('R34.3', 'whole-program-call', ok, 'executeAddonsWholeProgram runs the addons on the collected summaries on every path (%d exits) except the no-addon return' % len(exits)
           if ok else 'executeAddonsWholeProgram has a path that returns without running the addons on the collected summaries', '%s:%d' % (wp['file'], wp['line']))
    # R34.7: the per-file .ctu-info files in the build dir are the only store of the summaries of files that are not re-analysed: they must not be deleted
    r34_8(ctx)
    ctx.rule('R34.7', 'the whole-program stage deletes only its own temporary file, never the per-file ctu-info files of the build dir')
    tainted = set()
    changed = True

    def derives(e):
        return any((y.get('k') == 'CallExpr' and y.get('fn') in ('getCtuInfoFileName', 'getDumpFileName')) or
                   (y.get('k') == 'DeclRefExpr' and y.get('di') in tainted) for y in walk(e))
    while changed:
        changed = False
        for x in walk(wb):
            if x.get('k') == 'VarDecl' and x.get('init') is not None and x['di'] not in tainted and derives(x['init']):
                tainted.add(x['di'])
                changed = True
            if x.get('k') == 'CXXMemberCallExpr' and (x.get('fn') or '').split('::')[-1] in ('push_back', 'emplace_back', 'insert') and any(derives(a) for a in call_args(x)):
                for y in walk(x['c'][0]):
                    if y.get('k') == 'DeclRefExpr' and y.get('dk') == 'Var' and y['di'] not in tainted:
                        tainted.add(y['di'])
                        changed = True
            if x.get('k') == 'CXXForRangeStmt' and x.get('var') is not None and x.get('range') is not None and x['var'].get('di') not in tainted and derives(x['range']):
                tainted.add(x['var']['di'])
                changed = True
    dels = [x for x in walk(wb) if x.get('k') == 'CXXMemberCallExpr' and (x.get('fn') or '').endswith('FilesDeleter::addFile')]
    ctx.floor('R34.7 FilesDeleter::addFile calls in executeAddonsWholeProgram', len(dels), 1)
    for i, x in enumerate(dels):
        bad = any(derives(a) for a in call_args(x))
        ctx.ob('R34.7', 'deleted-file#%d' % i, not bad, 'the file scheduled for deletion is the stage\'s own temporary file' if not bad else
               'executeAddonsWholeProgram schedules a per-file ctu-info file (getCtuInfoFileName(getDumpFileName(..)), kept in the build dir) for deletion at line %s: a later run that '
               'takes the file from the cache does not re-run the addon, so its summary is gone and the whole-program addon findings for it disappear' % x['l'],
               '%s:%s' % (wp['file'], x['l']))


def r34_8(ctx):
    """R34.8  the addon configuration that was parsed is the configuration that is used: a member of AddonInfo that parseAddonInfo assigns from the JSON
    value (ctu, python, args, executable ...) is not assigned again - without reading its old value - by a function parseAddonInfo calls afterwards on the same
    object (today: AddonInfo::getAddonInfo for the "script" entry).  Otherwise e.g. "ctu": true of a .json addon is lost and its summaries are never handed
    to the whole-program stage."""
    from .common.facts import strip_all, call_args
    F = ctx.facts
    ctx.rule('R34.8', 'members of AddonInfo parsed from the JSON configuration are not overwritten by the functions called after parsing')
    cands = [g for g in F.find('parseAddonInfo') if F.body(g) is not None]
    if len(cands) != 1:
        raise AnalysisBroken('parseAddonInfo: %d definitions' % len(cands))
    f = cands[0]
    body = F.body(f)['body']
    parsed = {}
    for x in walk(body):
        if x.get('k') == 'MemberExpr' and (x.get('n') or '').startswith('AddonInfo::') and x.get('dk') == 'Field' and (x.get('a') or 'r') not in ('r', 'a'):
            parsed[x['n']] = max(parsed.get(x['n'], 0), x['l'])
    ctx.floor('R34.8 members parsed from the JSON configuration', len(parsed), 3)
    later = []
    for x in walk(body):
        if x.get('k') in ('CXXMemberCallExpr', 'CallExpr') and x.get('fid'):
            for g in F.resolve(f, x['fid']):
                if g['file'] == f['file'] and F.body(g) is not None and F.key(g) != F.key(f) and \
                        (g['name'].startswith('AddonInfo::') or any('AddonInfo' in p['t'] and '&' in p['t'] and 'const' not in p['t'] for p in g['params'])):
                    later.append((x, g))
    ctx.floor('R34.8 calls on the AddonInfo after parsing', len(later), 1)
    for member, pl in sorted(parsed.items()):
        bad = []
        for x, g in later:
            if x['l'] < pl:
                continue
            for y in walk(F.body(g)['body']):
                if y.get('k') in ('BinaryOperator', 'CXXOperatorCallExpr') and y.get('op') == '=':
                    ops = call_args(y) if y.get('k') == 'CXXOperatorCallExpr' else y['c']
                    if len(ops) == 2:
                        l = strip_all(ops[0])
                        if l.get('k') == 'MemberExpr' and l.get('n') == member and not any(z.get('k') == 'MemberExpr' and z.get('n') == member for z in walk(ops[1])):
                            bad.append('%s line %s' % (g['name'], y['l']))
        ctx.ob('R34.8', 'parsed-kept:%s' % member.split('::')[-1], not bad, ('%s keeps the value parsed from the JSON configuration' % member) if not bad else
               ('%s is assigned from the JSON configuration in parseAddonInfo (line %s) and then assigned again, without reading the parsed value, by %s: the configured value is lost'
                % (member, pl, ', '.join(bad))), '%s:%s' % (f['file'], pl))
