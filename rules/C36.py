"""C36  The HTML report lists every reported finding (escaping + no dropped records).

Python `ast` analysis of htmlreport/cppcheck-htmlreport (no execution).

R36.1  taint: every attribute of a parsed finding (values read from `attributes[...]` /
       `attributes.get(...)` in CppCheckHandler and stored under constant dict keys) that reaches an
       HTML sink (`<file>.write(...)`, the values yielded by AnnotateCodeFormatter.wrap, strings
       returned into such writes) passes html_escape() or a numeric conversion (int, len) on the way.
       Propagation: assignments, % / + / f-strings / .format / .join / .replace, dict stores and
       loads with constant keys, positional/keyword binding into the script's own functions.
       A flow is reported with the source field and the sink.
R36.2  no record is dropped: between `contentHandler.errors` and the loops that emit the per-file
       and index rows there is no `continue`/filter on a record, and the "source file cannot be read"
       paths still leave the finding in the index.
R36.3  record-list provenance: the loop in main() that groups findings by file iterates the complete list
       built by the SAX handler: its iterable is `contentHandler.errors` or a name every assignment of which is
       that list or an order-only derivation (sorted/list/reversed/tuple, or a helper of the script that returns
       its argument / appends every element unconditionally); the handler appends a record for every <error>
       element unconditionally; `files[...]['errors']` lists are only appended to.
"""
import ast
import os

from .common.facts import AnalysisBroken

SANITIZERS = {'html_escape', 'int', 'len', 'float', 'bool', 'quote', 'to_css_selector'}
SCRIPT = 'htmlreport/cppcheck-htmlreport'
FINDING_FIELDS = {'msg', 'verbose', 'id', 'severity', 'file', 'line', 'cwe', 'info', 'classification', 'guideline', 'inconclusive', 'attr'}


class Taint(ast.NodeVisitor):
    """Flow-insensitive, field-sensitive (constant dict keys) taint over one module."""

    def __init__(self, tree):
        self.tree = tree
        self.funcs = {}
        for n in ast.walk(tree):
            if isinstance(n, (ast.FunctionDef, ast.AsyncFunctionDef)):
                self.funcs.setdefault(n.name, n)
        self.var = {}        # (func name, var) -> set(labels)
        self.key = {}        # dict key -> set(labels)  (field-sensitive store shared by all dicts: error records)
        self.ret = {}        # func -> labels of return value
        self.param = {}      # (func, param name) -> labels
        self.flows = []      # (labels, sink description, lineno, func)
        self.changed = True

    # ---- expression taint ----------------------------------------------------------------------
    def t(self, n, fn):
        if n is None:
            return set()
        if isinstance(n, ast.Constant):
            return set()
        if isinstance(n, ast.Name):
            return set(self.var.get((fn, n.id), ())) | set(self.param.get((fn, n.id), ())) | set(self.var.get((None, n.id), ()))
        if isinstance(n, ast.Subscript):
            base = n.value
            # attributes['x'] : source
            if isinstance(base, ast.Name) and base.id == 'attributes':
                k = self.const(n.slice)
                return {k or 'attr'}
            k = self.const(n.slice)
            if k is not None and k in self.key:
                return set(self.key[k])
            if k is not None:
                return set()
            return self.t(base, fn)
        if isinstance(n, ast.Attribute):
            # self.x / obj.attr : treat attr name as a variable
            return set(self.var.get((None, n.attr), ())) | self.t(n.value, fn) if not isinstance(n.value, ast.Name) or n.value.id != 'self' else set(self.var.get((None, n.attr), ()))
        if isinstance(n, ast.Call):
            f = n.func
            name = f.id if isinstance(f, ast.Name) else (f.attr if isinstance(f, ast.Attribute) else None)
            if isinstance(f, ast.Attribute) and isinstance(f.value, ast.Name) and f.value.id == 'attributes' and f.attr == 'get':
                k = self.const(n.args[0]) if n.args else None
                return {k or 'attr'}
            if name in SANITIZERS:
                return set()
            if name in ('str', 'repr', 'format'):
                return set().union(*[self.t(a, fn) for a in n.args]) if n.args else set()
            if isinstance(f, ast.Attribute) and f.attr in ('replace', 'strip', 'rstrip', 'lstrip', 'lower', 'upper', 'split', 'join', 'format', 'get',
                                                            'encode', 'decode', 'rsplit', 'title', 'startswith', 'endswith', 'rfind', 'find'):
                if f.attr in ('startswith', 'endswith', 'rfind', 'find'):
                    return set()
                out = self.t(f.value, fn)
                for a in n.args:
                    out |= self.t(a, fn)
                for kw in n.keywords:
                    out |= self.t(kw.value, fn)
                if f.attr == 'get' and n.args:
                    k = self.const(n.args[0])
                    if k is not None:
                        return set(self.key.get(k, ()))
                return out
            if name in self.funcs:
                self.bind(name, n, fn)
                return set(self.ret.get(name, ()))
            if name in ('sorted', 'list', 'tuple', 'set', 'reversed', 'dict', 'enumerate', 'zip', 'max', 'min'):
                return set().union(*[self.t(a, fn) for a in n.args]) if n.args else set()
            # unknown call: arguments do not come back (os.path.*, open, ...) except path helpers
            if isinstance(f, ast.Attribute) and f.attr in ('join', 'basename', 'dirname', 'normpath', 'relpath', 'abspath'):
                return set().union(*[self.t(a, fn) for a in n.args]) if n.args else set()
            return set()
        if isinstance(n, ast.BinOp):
            return self.t(n.left, fn) | self.t(n.right, fn)
        if isinstance(n, ast.JoinedStr):
            out = set()
            for v in n.values:
                out |= self.t(v, fn)
            return out
        if isinstance(n, ast.FormattedValue):
            return self.t(n.value, fn)
        if isinstance(n, (ast.Tuple, ast.List, ast.Set)):
            out = set()
            for e in n.elts:
                out |= self.t(e, fn)
            return out
        if isinstance(n, ast.Dict):
            out = set()
            for v in n.values:
                out |= self.t(v, fn)
            return out
        if isinstance(n, ast.IfExp):
            return self.t(n.body, fn) | self.t(n.orelse, fn)
        if isinstance(n, ast.BoolOp):
            out = set()
            for v in n.values:
                out |= self.t(v, fn)
            return out
        if isinstance(n, (ast.ListComp, ast.GeneratorExp, ast.SetComp)):
            for g in n.generators:
                self.assign(g.target, self.t(g.iter, fn), fn)
            return self.t(n.elt, fn)
        if isinstance(n, ast.Compare):
            return set()
        if isinstance(n, ast.UnaryOp):
            return self.t(n.operand, fn)
        if isinstance(n, ast.Starred):
            return self.t(n.value, fn)
        return set()

    @staticmethod
    def const(n):
        if isinstance(n, ast.Constant) and isinstance(n.value, str):
            return n.value
        if isinstance(n, ast.Index):  # py<3.9
            return Taint.const(n.value)
        return None

    def add(self, table, k, labels):
        if not labels:
            return
        cur = table.setdefault(k, set())
        if not labels <= cur:
            cur |= labels
            self.changed = True

    def assign(self, target, labels, fn):
        if isinstance(target, ast.Name):
            self.add(self.var, (fn, target.id), labels)
        elif isinstance(target, (ast.Tuple, ast.List)):
            for e in target.elts:
                self.assign(e, labels, fn)
        elif isinstance(target, ast.Subscript):
            k = self.const(target.slice)
            if k is not None:
                self.add(self.key, k, labels)
            else:
                self.assign(target.value, labels, fn)
        elif isinstance(target, ast.Attribute):
            self.add(self.var, (None, target.attr), labels)

    def bind(self, name, call, fn):
        f = self.funcs[name]
        params = [a.arg for a in f.args.args]
        if params and params[0] == 'self':
            params = params[1:]
        for i, a in enumerate(call.args):
            if i < len(params):
                self.add(self.param, (name, params[i]), self.t(a, fn))
        for kw in call.keywords:
            if kw.arg:
                self.add(self.param, (name, kw.arg), self.t(kw.value, fn))

    # ---- statements --------------------------------------------------------------------------------
    def run(self):
        rounds = 0
        while self.changed and rounds < 12:
            self.changed = False
            rounds += 1
            self.flows = []
            for f in [None] + list(self.funcs.values()):
                body = self.tree.body if f is None else f.body
                fn = None if f is None else f.name
                for st in body:
                    self.stmt(st, fn)
        return self.flows

    def stmt(self, st, fn):
        if isinstance(st, (ast.FunctionDef, ast.AsyncFunctionDef, ast.ClassDef)):
            if isinstance(st, ast.ClassDef):
                for s in st.body:
                    if not isinstance(s, (ast.FunctionDef, ast.AsyncFunctionDef)):
                        self.stmt(s, fn)
            return
        if isinstance(st, ast.Assign):
            lab = self.t(st.value, fn)
            if isinstance(st.value, ast.Dict):
                for k, v in zip(st.value.keys, st.value.values):
                    kk = self.const(k) if k is not None else None
                    if kk is not None:
                        self.add(self.key, kk, self.t(v, fn))
            for tg in st.targets:
                self.assign(tg, lab, fn)
        elif isinstance(st, ast.AugAssign):
            self.assign(st.target, self.t(st.value, fn) | self.t(st.target, fn), fn)
        elif isinstance(st, ast.AnnAssign) and st.value is not None:
            self.assign(st.target, self.t(st.value, fn), fn)
        elif isinstance(st, ast.Expr):
            self.expr_stmt(st.value, fn)
        elif isinstance(st, ast.Return):
            self.add(self.ret, fn, self.t(st.value, fn))
            self.scan_calls(st.value, fn)
        elif isinstance(st, (ast.For, ast.AsyncFor)):
            self.assign(st.target, self.t(st.iter, fn), fn)
            self.scan_calls(st.iter, fn)
            for s in st.body + st.orelse:
                self.stmt(s, fn)
        elif isinstance(st, ast.While):
            self.scan_calls(st.test, fn)
            for s in st.body + st.orelse:
                self.stmt(s, fn)
        elif isinstance(st, ast.If):
            self.scan_calls(st.test, fn)
            for s in st.body + st.orelse:
                self.stmt(s, fn)
        elif isinstance(st, (ast.With, ast.AsyncWith)):
            for it in st.items:
                self.scan_calls(it.context_expr, fn)
            for s in st.body:
                self.stmt(s, fn)
        elif isinstance(st, ast.Try):
            for s in st.body + st.orelse + st.finalbody:
                self.stmt(s, fn)
            for h in st.handlers:
                for s in h.body:
                    self.stmt(s, fn)
        if isinstance(st, (ast.Assign, ast.AugAssign, ast.AnnAssign)) and getattr(st, 'value', None) is not None:
            self.scan_calls(st.value, fn)

    def expr_stmt(self, e, fn):
        if isinstance(e, (ast.Yield, ast.YieldFrom)):
            lab = self.t(e.value, fn)
            if lab and fn == 'wrap':
                self.flows.append((lab, 'value yielded by AnnotateCodeFormatter.wrap (annotated source line)', e.lineno, fn))
            return
        self.scan_calls(e, fn)

    def scan_calls(self, e, fn):
        if e is None:
            return
        for n in ast.walk(e):
            if isinstance(n, ast.Call):
                f = n.func
                if isinstance(f, ast.Attribute) and f.attr in ('write', 'writelines') and n.args:
                    # stderr diagnostics are not the report
                    tgt = f.value
                    if isinstance(tgt, ast.Attribute) and tgt.attr in ('stderr', 'stdout'):
                        continue
                    lab = self.t(n.args[0], fn)
                    if lab:
                        self.flows.append((lab, '%s.write(...)' % (tgt.id if isinstance(tgt, ast.Name) else 'file'), n.lineno, fn))
                else:
                    name = f.id if isinstance(f, ast.Name) else None
                    if name in self.funcs:
                        self.bind(name, n, fn)
                    if isinstance(f, ast.Attribute) and f.attr in ('append', 'extend', 'add', 'insert') and n.args:
                        # container of records / strings: propagate into the container variable
                        self.assign(f.value, set().union(*[self.t(a, fn) for a in n.args]), fn)
                    if isinstance(f, ast.Attribute) and f.attr == 'setdefault' and len(n.args) == 2:
                        self.assign(f.value, self.t(n.args[1], fn), fn)


def run(ctx):
    src = ctx.read(SCRIPT)
    try:
        tree = ast.parse(src)
    except SyntaxError as e:
        raise AnalysisBroken('cannot parse %s: %s' % (SCRIPT, e))
    ctx.rule('R36.1', 'attributes of a finding reach HTML sinks only through html_escape()/int()')
    ctx.rule('R36.3', 'the grouping loop iterates the complete list of parsed findings')
    ctx.rule('R36.2', 'no finding is filtered out between the SAX handler and the index / per-file pages')
    T = Taint(tree)
    r36_4(ctx, T)
    r36_5(ctx, T)
    flows = T.run()
    handler = [n for n in ast.walk(tree) if isinstance(n, ast.ClassDef) and n.name == 'CppCheckHandler']
    if not handler:
        raise AnalysisBroken('class CppCheckHandler not found')
    fields = sorted(k for k, v in T.key.items() if v)
    ctx.floor('finding fields tracked from attributes[...]', len(fields), 8)
    ctx.counts['sinks with a tainted operand'] = len(flows)
    nsinks = sum(1 for n in ast.walk(tree) if isinstance(n, ast.Call) and isinstance(n.func, ast.Attribute) and n.func.attr == 'write')
    ctx.floor('write() sinks in the script', nsinks, 40)
    seen = {}
    for lab, sink, line, fn in flows:
        for l in sorted(lab):
            if l not in FINDING_FIELDS:
                continue   # e.g. the cppcheck version string of the <cppcheck> element: not an attribute of a finding
            key = 'taint:%s->%s' % (l, fn or 'main')
            seen.setdefault(key, (l, sink, line, fn))
    all_fields = ['msg', 'verbose', 'id', 'severity', 'file', 'line', 'cwe', 'info', 'classification', 'guideline', 'inconclusive']
    for key, (l, sink, line, fn) in sorted(seen.items()):
        ctx.ob('R36.1', key, False,
               'the finding attribute %r reaches %s in %s() without html_escape()/int(): a value containing <, > or & is copied into the page as markup'
               % (l, sink, fn or 'main'), '%s:%d' % (SCRIPT, line))
    # one passing obligation per field that is fully sanitised
    for fld in all_fields:
        if not any(k.startswith('taint:%s->' % fld) for k in seen):
            ctx.ob('R36.1', 'field:%s' % fld, True, 'attribute %r never reaches an HTML sink unescaped' % fld, SCRIPT)

    # ---- R36.2 no dropped records -------------------------------------------------------------------------
    main = T.funcs.get('main')
    if main is None:
        raise AnalysisBroken('main() not found in the script')
    # loops over contentHandler.errors / files[...]['errors'] / data['errors']
    loops = []
    for n in ast.walk(main):
        if isinstance(n, ast.For):
            it = ast.unparse(n.iter) if hasattr(ast, 'unparse') else ''
            if 'errors' in it:
                loops.append((n, it))
    ctx.floor('loops over finding records in main()', len(loops), 4)
    for i, (lp, it) in enumerate(loops):
        drops = []
        for n in ast.walk(lp):
            if isinstance(n, ast.Continue):
                drops.append(n.lineno)
        # `continue` only inside nested loops that do not iterate records is fine; here every continue in a record loop is reported
        inner_loops = [x for x in ast.walk(lp) if isinstance(x, (ast.For, ast.While)) and x is not lp]
        inner_cont = set()
        for il in inner_loops:
            for n in ast.walk(il):
                if isinstance(n, ast.Continue):
                    inner_cont.add(n.lineno)
        drops = [d for d in drops if d not in inner_cont]
        ctx.ob('R36.2', 'loop:%d:%s' % (i, it[:40]), not drops,
               ('loop over %s emits every record (no continue)' % it) if not drops else
               ('loop over %s skips records with `continue` at line(s) %s' % (it, drops)), '%s:%d' % (SCRIPT, lp.lineno))
    # unreadable source file: the except arm must not remove the file's findings from the index
    for n in ast.walk(main):
        if isinstance(n, ast.Try):
            for h in n.handlers:
                txt = ast.unparse(h) if hasattr(ast, 'unparse') else ''
                if 'not found' in txt or 'decode' in txt.lower():
                    removes = [x for x in ast.walk(h) if isinstance(x, ast.Delete) or (isinstance(x, ast.Call) and isinstance(x.func, ast.Attribute) and x.func.attr in ('pop', 'remove', 'clear'))]
                    ctx.ob('R36.2', 'unreadable-source:%d' % h.lineno if False else 'unreadable-source:%s' % ('decode' if 'decode' in txt.lower() else 'notfound'),
                           not removes, 'the handler for an unreadable source file keeps the file\'s findings for the index' if not removes else
                           'the handler for an unreadable source file removes records (line %d)' % removes[0].lineno, '%s:%d' % (SCRIPT, h.lineno))

    # ---- R36.3 provenance of the record list ----------------------------------------------------------------------
    ORDER_ONLY = {'sorted', 'list', 'reversed', 'tuple'}

    def is_source(e):
        return isinstance(e, ast.Attribute) and e.attr == 'errors' and isinstance(e.value, ast.Name) and e.value.id == 'contentHandler'

    def helper_keeps_all(fn, pname):
        """True iff every return of fn yields all elements of parameter pname (alias, order-only call, or a list
        filled by an unconditional append in a loop over the parameter)."""
        full = {pname}
        for n in ast.walk(fn):
            if isinstance(n, ast.For) and isinstance(n.iter, ast.Name) and n.iter.id in full and isinstance(n.target, ast.Name):
                tv = n.target.id
                has_skip = any(isinstance(x, (ast.Continue, ast.Break, ast.Return)) for x in ast.walk(n))
                for st in n.body:
                    if isinstance(st, ast.Expr) and isinstance(st.value, ast.Call) and isinstance(st.value.func, ast.Attribute) and st.value.func.attr == 'append' \
                            and isinstance(st.value.func.value, ast.Name) and len(st.value.args) == 1 and isinstance(st.value.args[0], ast.Name) and st.value.args[0].id == tv \
                            and not has_skip:
                        full.add(st.value.func.value.id)
        rets = [n for n in ast.walk(fn) if isinstance(n, ast.Return)]
        if not rets:
            return False
        for r in rets:
            if not keeps_all(r.value, full, None):
                return False
        return True

    def keeps_all(e, full, scope):
        if e is None:
            return False
        if is_source(e):
            return True
        if isinstance(e, ast.Name):
            return e.id in full
        if isinstance(e, ast.Call) and isinstance(e.func, ast.Name):
            if e.func.id in ORDER_ONLY and e.args:
                return keeps_all(e.args[0], full, scope)
            fn = T.funcs.get(e.func.id)
            if fn is not None and e.args and fn.args.args:
                return keeps_all(e.args[0], full, scope) and helper_keeps_all(fn, fn.args.args[0].arg)
        return False

    # names in main() all of whose assignments keep every record
    assigns = {}
    for n in ast.walk(main):
        if isinstance(n, ast.Assign) and len(n.targets) == 1 and isinstance(n.targets[0], ast.Name):
            assigns.setdefault(n.targets[0].id, []).append(n)
    def full_before(line):
        """names all of whose assignments textually before `line` keep every record (the grouping loop is a
        direct statement of main(), so later reassignments cannot reach it)"""
        full = set()
        changed = True
        while changed:
            changed = False
            for name, asg in assigns.items():
                asg = [a for a in asg if a.lineno < line]
                if asg and name not in full and all(keeps_all(a.value, full, main) for a in asg):
                    full.add(name)
                    changed = True
        return full
    group = []
    for n in ast.walk(main):
        if isinstance(n, ast.For):
            appends = [x for x in ast.walk(n) if isinstance(x, ast.Call) and isinstance(x.func, ast.Attribute) and x.func.attr == 'append' and
                       isinstance(x.func.value, ast.Subscript) and T.const(x.func.value.slice) == 'errors']
            if appends:
                group.append(n)
    ctx.floor('R36.3 grouping loops (files[..][\'errors\'].append)', len(group), 1)
    for g in group:
        it = ast.unparse(g.iter)
        full = full_before(g.lineno if g in main.body else 10 ** 9)
        ok = keeps_all(g.iter, full, main)
        bad = ''
        if not ok and isinstance(g.iter, ast.Name) and g.iter.id in assigns:
            bad = '; `%s` is assigned at line(s) %s from an expression that may drop records' % (
                g.iter.id, ', '.join(str(a.lineno) for a in assigns[g.iter.id] if a.lineno < g.lineno and not keeps_all(a.value, full, main)))
        ctx.ob('R36.3', 'grouping-iterable', ok, ('the grouping loop iterates %s, the complete list of parsed findings' % it) if ok else
               ('the grouping loop iterates `%s`, which is not the complete list built by the SAX handler%s' % (it, bad)), '%s:%d' % (SCRIPT, g.lineno))
    # handler: every <error> element appends one record, unconditionally within the `name == 'error'` arm
    for hname in ('handleVersion2',):
        h = T.funcs.get(hname)
        if h is None:
            raise AnalysisBroken('%s not found' % hname)
        arm = None
        for n in ast.walk(h):
            if isinstance(n, ast.If) and isinstance(n.test, ast.Compare) and isinstance(n.test.left, ast.Name) and n.test.left.id == 'name' and \
                    len(n.test.comparators) == 1 and isinstance(n.test.comparators[0], ast.Constant) and n.test.comparators[0].value == 'error':
                arm = n
        ok = False
        if arm is not None:
            for st in arm.body:     # direct statement of the arm, not nested under another condition
                if isinstance(st, ast.Expr) and isinstance(st.value, ast.Call) and ast.unparse(st.value.func) == 'self.errors.append':
                    ok = True
            if any(isinstance(x, (ast.Return, ast.Continue)) for st in arm.body for x in ast.walk(st)):
                ok = False
        ctx.ob('R36.3', 'handler-append:%s' % hname, ok, 'every <error> element appends one record to self.errors unconditionally' if ok else
               '%s does not append a record for every <error> element (conditional append / early return in the `name == \'error\'` arm)' % hname,
               '%s:%d' % (SCRIPT, h.lineno))
    # per-file lists and the handler list are only appended to / read
    shrink = []
    for n in ast.walk(T.tree):
        if isinstance(n, ast.Call) and isinstance(n.func, ast.Attribute) and n.func.attr in ('pop', 'remove', 'clear') and 'errors' in ast.unparse(n.func.value):
            shrink.append(n.lineno)
        if isinstance(n, ast.Delete) and 'errors' in ast.unparse(n):
            shrink.append(n.lineno)
        if isinstance(n, ast.Assign) and any(isinstance(t, ast.Subscript) and T.const(t.slice) == 'errors' for t in n.targets):
            shrink.append(n.lineno)
        if isinstance(n, ast.Assign) and any(isinstance(t, ast.Attribute) and t.attr == 'errors' and ast.unparse(t.value) in ('contentHandler',) for t in n.targets):
            shrink.append(n.lineno)
    ctx.ob('R36.3', 'lists-only-grow', not shrink, 'no statement removes from or replaces a list of finding records' if not shrink else
           'a list of finding records is shrunk or replaced at line(s) %s' % shrink, SCRIPT)


def r36_4(ctx, T):
    """R36.4  no keyed collapse of finding records: itertools.groupby only groups *adjacent* equal keys, so grouping the (unsorted) list of findings and storing the
    groups in a dict keeps only the last run of each key; likewise a dict / set comprehension keyed by a non-unique field of a finding (line, file, id) keeps one record
    per key.  Every groupby over finding records must get `sorted(..., key=<same key>)` as its input, and no comprehension may key finding records by such a field
    without collecting a list per key."""
    ctx.rule('R36.4', 'finding records are not collapsed by groupby on unsorted input or by dicts keyed on a non-unique field')
    n = 0
    for node in ast.walk(T.tree):
        if isinstance(node, ast.Call) and ((isinstance(node.func, ast.Attribute) and node.func.attr == 'groupby') or (isinstance(node.func, ast.Name) and node.func.id == 'groupby')):
            n += 1
            arg = node.args[0] if node.args else None
            ok = isinstance(arg, ast.Call) and isinstance(arg.func, ast.Name) and arg.func.id == 'sorted'
            if ok:
                k1 = next((ast.unparse(k.value) for k in node.keywords if k.arg == 'key'), ast.unparse(node.args[1]) if len(node.args) > 1 else None)
                k2 = next((ast.unparse(k.value) for k in arg.keywords if k.arg == 'key'), None)
                ok = k1 == k2
            ctx.ob('R36.4', 'groupby#%d' % n, ok, 'groupby gets its input sorted by the grouping key' if ok else
                   'itertools.groupby at line %d is applied to a list that is not sorted by the grouping key: equal keys that are not adjacent form several groups, and when the '
                   'groups are stored per key only the last one survives - the other findings lose their entry' % node.lineno, '%s:%d' % (SCRIPT, node.lineno))
        if isinstance(node, ast.DictComp):
            # {rec[field]: rec ...} over errors
            gen = node.generators[0] if node.generators else None
            if gen is not None and 'error' in ast.unparse(gen.iter) and isinstance(node.key, ast.Subscript) and isinstance(node.value, ast.Name) and \
                    isinstance(gen.target, ast.Name) and node.value.id == gen.target.id:
                n += 1
                ctx.ob('R36.4', 'dictcomp#%d' % n, False, 'the dict comprehension at line %d keeps one finding per %s' % (node.lineno, ast.unparse(node.key)),
                       '%s:%d' % (SCRIPT, node.lineno))
    ctx.ob('R36.4', 'collapse-census', True, '%d grouping constructs over finding records examined' % n, SCRIPT)


def r36_5(ctx, T):
    """R36.5  every finding of a source line is annotated: in AnnotateCodeFormatter.wrap the body executed for a finding whose line matches assigns the output line `t`
    on every path (must-assign over the Python syntax tree: both arms of every if, the body and every handler of a try)."""
    ctx.rule('R36.5', 'the per-file page annotates every finding of a line on every path')
    wrap = None
    for n in ast.walk(T.tree):
        if isinstance(n, ast.ClassDef) and n.name == 'AnnotateCodeFormatter':
            for m in n.body:
                if isinstance(m, ast.FunctionDef) and m.name == 'wrap':
                    wrap = m
    if wrap is None:
        raise AnalysisBroken('AnnotateCodeFormatter.wrap not found')

    def must_assign(stmts, name):
        for st in stmts:
            if isinstance(st, (ast.Assign, ast.AugAssign)):
                tg = st.targets if isinstance(st, ast.Assign) else [st.target]
                if any(isinstance(t_, ast.Name) and t_.id == name for t_ in tg):
                    return True
            if isinstance(st, ast.If):
                if st.orelse and must_assign(st.body, name) and must_assign(st.orelse, name):
                    return True
            if isinstance(st, ast.Try):
                if must_assign(st.body, name) and all(must_assign(h.body, name) for h in st.handlers):
                    return True
                if st.finalbody and must_assign(st.finalbody, name):
                    return True
        return False
    loops = [n for n in ast.walk(wrap) if isinstance(n, ast.For) and 'errors' in ast.unparse(n.iter)]
    ctx.floor('R36.5 loops over the findings of a source line in wrap()', len(loops), 1)
    for lp in loops:
        # the statement guarded by the line comparison
        guarded = None
        for st in lp.body:
            if isinstance(st, ast.If) and 'line' in ast.unparse(st.test):
                guarded = st.body
        body = guarded if guarded is not None else lp.body
        ok = must_assign(body, 't')
        ctx.ob('R36.5', 'annotate-all:%d' % loops.index(lp), ok, 'every finding on the line changes the output line (annotation added on all paths)' if ok else
               'AnnotateCodeFormatter.wrap has a path on which a finding whose line matches adds no annotation (an if without else / a try whose body can fall through): such a '
               'finding is missing from the per-file page', '%s:%d' % (SCRIPT, lp.lineno))
