"""C27  Severity and certainty options gate findings monotonically.

cppcheck has no central gate (Check::reportError: "TODO: report debug warning when error is for a
disabled severity"), so the per-site guards are what makes the property hold.

R27.1  for every reporting call reachable from the analysis, for every severity s in
       {warning, style, performance, portability, information} the call can carry and for
       certainty inconclusive:   EC(function) and PC(call) and [role value = s]  =>  s enabled
       where PC is the path condition of the call inside its function (early returns, continue,
       nested ifs, &&, ?:, local bool aliases such as printStyle), role values are guarded
       constants (value->errorSeverity() ? error : warning), bool / Value parameters are bound at
       every call site (up to 3 levels), and EC is the disjunction over all call chains from the
       analysis entry points of the guards on the way (a truth table over the 8 settings atoms).
       Decided by truth-table enumeration; a VIOLATION carries the falsifying option set.
R27.2  the set of option assignments under which a site is reachable is upward closed in the
       severity / certainty atoms (enabling more never removes a finding).
Assumption: Settings::isPremiumEnabled(...) is false (open-source build).
"""
import collections

from .common.facts import walk, strip, strip_all, call_args, AnalysisBroken
from .common.reports import Reports, TOP
from .common import guards as G

GATED = {'Severity::warning': 'sev:warning', 'Severity::style': 'sev:style', 'Severity::performance': 'sev:performance',
         'Severity::portability': 'sev:portability', 'Severity::information': 'sev:information'}
ROOTS = ['CppCheck::check', 'CppCheck::checkFile', 'CppCheck::checkBuffer', 'CppCheck::analyseWholeProgram']
MAX_LEVELS = 6

# Sites where R27.1 cannot derive the gating from branch conditions because it is established through
# data flow (values pre-filtered by the settings, containers filled only under the option, ...) or by a
# separate enable flag.  Each entry was read (see DESIGN.md C27); the rule does not decide these sites
# (no pass is claimed for them, a guard removed there is not detected).
UNDECIDED = {
    'site:CheckBufferOverrun::arrayIndexError/warning': 'guard is a loop over all index values (return unless every value is errorSeverity or warning is on); the reported value is one of them',
    'site:CheckBufferOverrun::arrayIndexError/inconclusive': 'index values come from getOverrunIndexValues/Token::getMaxValue, inconclusive values are filtered there',
    'site:CheckBufferOverrun::negativeIndexError/warning': 'same loop-quantified guard as arrayIndexError',
    'site:CheckBufferOverrun::negativeIndexError/inconclusive': 'values come from Token::getValueLE(settings) -> ValueFlow::findValue, which drops inconclusive values when the option is off',
    'site:CheckBufferOverrun::pointerArithmeticError/inconclusive': 'index value obtained through getBufferSize / getValueGE(settings), filtered by ValueFlow::findValue',
    'site:CheckOther::invalidFreeError/inconclusive': 'the flag is stored in a map that is only set to true under printInconclusive',
    'site:CheckNullPointer::analyseWholeProgram/warning': 'loop "for (warning = 0; warning <= 1; ++warning) { if (warning == 1 && !isEnabled(warning)) break;" is an integer idiom, not a branch condition on the severity expression',
    'site:CheckType::signConversionError/inconclusive': 'negative value obtained with Token::getValueLE(settings): inconclusive values are filtered by ValueFlow::findValue',
    'site:CheckUnusedFunctions::staticFunctionError/style': 'gated by its own documented flag --enable=unusedFunction (Checks::unusedFunction), not by the style severity',
    'site:CheckUnusedFunctions::unusedFunctionError/style': 'gated by its own documented flag --enable=unusedFunction (Checks::unusedFunction)',
    'site:Preprocessor::missingInclude/information': 'gated by its own documented flag --enable=missingInclude (Checks::missingInclude)',
    'site:CppCheck::check/information': 'the empty-id message is only passed to isSuppressed() to mark wildcard suppressions as checked; it is never reported',
    'site:CheckNullPointer::nullPointerError/inconclusive': 'value provenance (Token::getValue(0) + Settings::isEnabled(value, inconclusive) at the callers, through several helper layers); not demonstrated either way',
    'site:CheckFunctions::invalidFunctionArgError/inconclusive': 'invalid value comes from Token::getInvalidValue(..., settings); certainty follows the value; not demonstrated either way',
    'site:CheckIO::invalidScanfFormatWidthError/warning': 'guard "tok != nullptr && (!inconclusive || !warning) -> return" holds for every analysis call (tok is the format token), the null case is the listing call',
    'site:CheckIO::invalidScanfFormatWidthError/inconclusive': 'same guard as the warning role',
    'site:CheckStl::dereferenceInvalidIteratorError/warning': 'value obtained through getOverrunIndexValues-style helpers filtered with Settings::isEnabled(value); not demonstrated either way',
    'site:CheckStl::negativeIndexError/warning': 'index value from Token::getValueLE(-1, settings) (filtered by ValueFlow::findValue)',
    'site:CheckStl::negativeIndexError/inconclusive': 'index value from Token::getValueLE(-1, settings) (filtered by ValueFlow::findValue)',
    'site:CheckStl::outOfBoundsError/warning': 'container/index values are filtered with Settings::isEnabled(value) in the callers\' helper lambdas; not demonstrated either way',
    'site:CheckStl::outOfBoundsError/inconclusive': 'same as the warning role',
    'site:CheckStl::eraseIteratorOutOfBoundsError/warning': 'value from ValueFlow::findValue-filtered getter; not demonstrated either way',
    'site:CheckStl::mismatchingContainerExpressionError/warning': 'no guard found; not demonstrated with an input (candidate)',
    'site:CheckOther::accessMovedError/inconclusive': 'certainty also follows movedValue->isInconclusive() when accessOfMoved is true; not demonstrated with an input (candidate)',
    'site:CheckOther::selfAssignmentError/style': 'reachable from checkEvaluationOrder (C only) without style test; not demonstrated with an input (candidate)',
    'site:CheckOther::unknownEvaluationOrder/portability': 'portability only on the C++17 unspecified-behaviour path; not demonstrated with an input (candidate)',
    'site:CheckClass::uninitVarError/warning': 'the 3-argument overload is called under printStyle only; not demonstrated with an input (candidate)',
    'site:Tokenizer::simplifyBitfields/warning': 'tooLargeBitField has no severity test; not demonstrated with an input (candidate)',
    'site:CheckUnusedVar::checkFunctionVariableUsage/information': 'checkLibraryCheckType is gated by --check-library only; not demonstrated with an input (candidate)',
    'site:CheckLeakAutoVar::configurationInfo/information': 'checkLibraryUseIgnore is gated by --check-library only; not demonstrated with an input (candidate)',
}


def is_repo(f):
    return f['file'].startswith(('lib/',))


class Analysis:
    def __init__(self, ctx):
        self.ctx = ctx
        self.F = ctx.facts
        self.R = Reports(self.F)
        self.assumptions = set()
        self.walks = {}
        self.sums = {}
        self.busy = set()

    # roles of a primitive / known reporter: param index per role
    def prim_roles(self, g):
        r = self.R.reporters.get(self.F.key(g))
        return r['roles'] if r else None

    def walk_fn(self, f, on_call):
        b = self.F.body(f)
        if b is None:
            return None
        w = G.FnWalk(self.F, f, b['body'], self.assumptions, on_call)
        for i in b.get('inits', ()):
            if i.get('init'):
                w.expr(i['init'], G.T)
        w.run()
        return w

    def summary(self, f, depth=0):
        """Entries {pc, sev, cert, origin, chain}; entries may be open (mention parameters of f)."""
        F = self.F
        key = F.key(f)
        if key in self.sums:
            return self.sums[key]
        if key in self.busy or depth > 6:
            return []
        self.busy.add(key)
        entries = []
        may = self.R.may_report()

        def on_call(x, pc, w):
            if not x.get('fid') or x.get('k') == 'CXXOperatorCallExpr':
                return
            for g in F.resolve(f, x['fid'], x.get('virt', False)):
                roles = self.prim_roles(g)
                args = call_args(x)
                if roles is not None:
                    sev = w.cval(args[roles['sev']]) if 'sev' in roles and roles['sev'] < len(args) else [(G.T, 'TOP')]
                    cert = w.cval(args[roles['cert']]) if 'cert' in roles and roles['cert'] < len(args) else [(G.T, 'Certainty::normal')]
                    ent = {'pc': pc, 'sev': sev, 'cert': cert, 'origin': (f, x), 'chain': [(f, x)]}
                    if not any(isinstance(c, tuple) for _, c in sev):
                        ent['emitter'] = (f, x)
                    entries.append(ent)
                    continue
                if F.key(g) not in may or not is_repo(g) and not g['file'].startswith('cli/'):
                    continue
                if g['name'].endswith('::getErrorMessages'):
                    continue
                sub = self.summary(g, depth + 1)
                for e in sub:
                    if not e.get('open'):
                        continue
                    if len(e['chain']) > MAX_LEVELS:
                        continue
                    entries.append(self.instantiate(e, g, x, pc, w, f))

        w = self.walk_fn(f, on_call)
        self.busy.discard(key)
        # mark open entries
        pdi = {p['di']: i for i, p in enumerate(f['params'])}
        for e in entries:
            e['open'] = self.is_open(e, pdi)
        self.sums[key] = entries
        self.walks[key] = w
        return entries

    @staticmethod
    def param_atoms(form, pdi):
        out = set()
        for a in G.atoms(form):
            if a.startswith(('P:', 'PEQ:')):
                out.add(a)
            elif a.startswith(('ES:', 'INC:', 'KNOWN:')):
                sig = a.split(':', 1)[1]
                if sig.startswith('v:') and sig[2:] in pdi:
                    out.add(a)
        return out

    def is_open(self, e, pdi):
        if self.param_atoms(e['pc'], pdi):
            return True
        for role in ('sev', 'cert'):
            for g, c in e[role]:
                if isinstance(c, tuple) or self.param_atoms(g, pdi):
                    return True
        return False

    def instantiate(self, e, g, x, pc, w, f):
        """Entry e of callee g at call x (evaluated under pc in walker w of f)."""
        args = call_args(x)
        m = {}
        gp = g['params']
        for i, p in enumerate(gp):
            if i < len(args):
                a = args[i]
                if a.get('k') == 'DefaultArg' and not a.get('c'):
                    continue
                t = p['t'].replace('const ', '')
                if t == 'bool' or t.rstrip().endswith('*'):
                    m['P:%d' % i] = w.formula(a)
                    if t.rstrip().endswith('*') and derefed_in_call(a, x):
                        m['P:%d' % i] = G.T     # the same call expression dereferences this pointer: it is not null
                if 'Value' in p['t']:
                    sig = w.value_sig(a)
                    for pref in ('ES:', 'INC:', 'KNOWN:'):
                        m[pref + 'v:' + p['di']] = G.A(pref + sig)
        for form in [e['pc']] + [gg for role in ('sev', 'cert') for gg, _ in e[role]]:
            for a in G.atoms(form):
                if a.startswith('PEQ:'):
                    _, i, kv = a.split(':')
                    i = int(i)
                    if i < len(args):
                        av = strip(args[i])
                        if av.get('k') == 'IntegerLiteral':
                            m[a] = G.T if av.get('v') == kv else G.Fz
        # rename the callee's other free atoms so that they cannot collide with the caller's
        ren = {}
        tag = "'%s" % g['name'].rsplit('::', 1)[-1]
        for form in [e['pc']] + [gg for role in ('sev', 'cert') for gg, _ in e[role]]:
            for a in G.atoms(form):
                if a in G.SIDX or a in m:
                    continue
                ren[a] = G.A(a + tag)
        mm = dict(ren)
        mm.update(m)
        new = {'pc': G.And(pc, G.subst(e['pc'], mm)), 'origin': e['origin'], 'chain': e['chain'] + [(f, x)]}
        for role in ('sev', 'cert'):
            out = []
            for gg, c in e[role]:
                gg2 = G.subst(gg, mm)
                if isinstance(c, tuple):
                    i = c[1]
                    if i < len(args):
                        for g3, c3 in w.cval(args[i]):
                            out.append((G.And(gg2, g3), c3))
                    else:
                        out.append((gg2, 'TOP'))
                else:
                    out.append((gg2, c))
            new[role] = out
        if 'emitter' in e:
            new['emitter'] = e['emitter']
        elif not any(isinstance(c, tuple) for _, c in new['sev']):
            new['emitter'] = (f, x)
        return new


def run(ctx):
    F = ctx.facts
    r27_3(ctx)
    r27_4(ctx)
    r27_5(ctx)
    ctx.rule('R27.1', 'every reporting call is dominated by the enable test of every optional severity / inconclusive '
                      'certainty it can carry (interprocedural path conditions, truth-table decision)')
    ctx.rule('R27.2', 'the option assignments under which a reporting call is reachable are upward closed')
    an = Analysis(ctx)
    R = an.R
    roots = [f for n in ROOTS for f in F.find(n)]
    if len(roots) < 4:
        raise AnalysisBroken('analysis roots: %d found' % len(roots))
    reach = F.reachable(roots, stop=lambda f: f['name'].endswith('::getErrorMessages'))

    # ---- relevant functions: reachable from the roots and able to reach a reporting call -------------------
    has_eff = {k for k, v in R.effects.items() if v}
    rev = collections.defaultdict(set)
    for k, (f, _, _) in reach.items():
        for g, c in F.callees(f):
            rev[F.key(g)].add(k)
    rel = set(k for k in has_eff if k in reach)
    work = list(rel)
    while work:
        k = work.pop()
        for c in rev.get(k, ()):
            if c not in rel:
                rel.add(c)
                work.append(c)
    ctx.counts['functions_between_roots_and_reporting_calls'] = len(rel)

    # ---- entry conditions (truth tables over the settings atoms) -------------------------------------------------
    EC = collections.defaultdict(int)
    call_masks = {}

    def masks_of(fk):
        if fk in call_masks:
            return call_masks[fk]
        f = reach[fk][0]
        out = []

        def on_call(x, pc, w):
            if not x.get('fid'):
                return
            for g in F.resolve(f, x['fid'], x.get('virt', False)):
                gk = F.key(g)
                if gk in rel and gk != fk:
                    at = G.atoms(pc)
                    m = 0 if pc == G.Fz else (G.FULL if not (at & set(G.SIDX)) else G.settings_mask(pc))
                    out.append((gk, m))

        an.walk_fn(f, on_call)
        call_masks[fk] = out
        return out

    work = []
    for r in roots:
        EC[F.key(r)] = G.FULL
        work.append(F.key(r))
    it = 0
    while work:
        fk = work.pop()
        it += 1
        if fk not in rel and fk not in [F.key(r) for r in roots]:
            continue
        for gk, m in masks_of(fk):
            new = EC[gk] | (EC[fk] & m)
            if new != EC[gk]:
                EC[gk] = new
                work.append(gk)
    ctx.counts['entry_condition_propagation_steps'] = it

    # ---- obligations ----------------------------------------------------------------------------------------------
    nsites = 0
    per_key = {}
    unresolved = 0
    for fk in sorted(rel):
        f = reach[fk][0]
        if f['name'].endswith('::getErrorMessages'):
            continue
        ents = an.summary(f)
        pdi = {p['di']: i for i, p in enumerate(f['params'])}
        for e in ents:
            closing_here = not e['open'] or len(e['chain']) > MAX_LEVELS or not has_analysis_caller(F, f, reach, rel)
            if e['open'] and not closing_here:
                continue     # decided at the callers, where the parameters are bound
            if e['open']:
                unresolved += 1
            ec = EC.get(fk, 0)
            if ec == 0:
                continue
            of, ox = e.get('emitter') or e['origin']
            nsites += 1
            for role, table in (('sev', GATED), ('cert', {'Certainty::inconclusive': 'cert:inconclusive'})):
                for g, c in e[role]:
                    if c not in table:
                        continue
                    goal = table[c]
                    form = G.And(e['pc'], g)
                    cex = G.find_counterexample(ec, form, goal)
                    name = of['name']
                    key = 'site:%s/%s' % (name, c.split('::')[1])
                    ok = cex is None
                    if cex == 'too-many-atoms':
                        form2 = G.drop_free(form)
                        cex = G.find_counterexample(ec, form2, goal)
                        ok = cex is None
                    prev = per_key.get(key)
                    rec = {'ok': ok, 'where': '%s:%s' % (of['file'], ox.get('l')), 'cex': cex, 'entry': e, 'closed_in': f['name'], 'goal': goal}
                    if prev is None or (prev['ok'] and not ok):
                        per_key[key] = rec
            # R27.2 monotone reachability
            m = G.settings_mask(e['pc']) & ec
            bad = non_monotone(m)
            keym = 'mono:%s' % of['name']
            prev = per_key.get(keym)
            rec = {'ok': bad is None, 'where': '%s:%s' % (of['file'], ox.get('l')), 'cex': bad, 'entry': e, 'closed_in': f['name'], 'goal': 'monotone'}
            if prev is None or (prev['ok'] and bad is not None):
                per_key[keym] = rec

    ctx.floor('reporting entries decided', nsites, 300)
    ctx.counts['entries_with_unbound_parameters_treated_as_free'] = unresolved
    ngated = 0
    nund = 0
    for key, r in sorted(per_key.items()):
        if key in UNDECIDED:
            nund += 1
            ctx.note('undecided %s at %s: %s%s' % (key, r['where'], UNDECIDED[key], '' if not r['ok'] else ' [now provable: entry can be dropped]'))
            continue
        if key.startswith('mono:'):
            ctx.ob('R27.2', key, r['ok'],
                   'reachability of the site is monotone in the options' if r['ok'] else
                   'site is reachable with %s but not when additionally enabling %s: enabling an option removes the finding'
                   % (fmt_asg(r['cex'][0]), r['cex'][1]), r['where'])
            continue
        ngated += 1
        e = r['entry']
        if r['ok']:
            ctx.ob('R27.1', key, True, 'every path to the report with this severity/certainty passes its enable test', r['where'])
        else:
            cex = r['cex']
            opts = {a: v for a, v in cex.items() if a in G.SIDX}
            free = {a: v for a, v in cex.items() if a not in G.SIDX and v}
            chain = ' <- '.join('%s:%s' % (cf['name'], cx.get('l')) for cf, cx in e['chain'])
            ctx.ob('R27.1', key, False,
                   'finding can be reported although %s is off: option set {%s} reaches the report (call chain %s)%s'
                   % (r['goal'], fmt_asg(opts), chain, (' with ' + ', '.join(sorted(free))) if free else ''),
                   r['where'], {'options': opts, 'free_atoms_true': sorted(free), 'chain': chain, 'closed_in': r['closed_in']})
    ctx.floor('gated (site, severity|certainty) pairs', ngated, 250)
    ctx.counts['sites_not_decided_by_this_rule'] = nund
    for a in sorted(an.assumptions):
        ctx.assume(a)
    ctx.assume('clang 14 front end resolves names/types/overloads as the real build does')


def derefed_in_call(arg, call):
    from .common.absint import pure_sig
    sg = pure_sig(arg)
    if sg is None:
        return False
    for y in walk(call):
        if y.get('k') == 'MemberExpr' and y.get('arrow') and y.get('c'):
            if pure_sig(y['c'][0]) == sg and y['c'][0] is not arg:
                return True
    return False


def has_analysis_caller(F, f, reach, rel):
    names = [f['id']] + list(f.get('overrides', ()))
    for k in rel:
        g = reach[k][0]
        if g['name'].endswith('::getErrorMessages'):
            continue
        if any(c['f'] in names for c in g['calls']):
            return True
    return False


def non_monotone(mask):
    """(assignment index reachable, atom whose enabling makes it unreachable) or None."""
    mono_atoms = [i for i, a in enumerate(G.SETTINGS_ATOMS) if a.startswith(('sev:', 'cert:'))]
    for idx in range(1 << G.NSET):
        if not (mask >> idx & 1):
            continue
        for i in mono_atoms:
            if idx >> i & 1:
                continue
            j = idx | (1 << i)
            if not (mask >> j & 1):
                return (G.mask_formula_asg(idx), G.SETTINGS_ATOMS[i])
    return None


def fmt_asg(asg):
    on = sorted(a for a, v in asg.items() if v and a in G.SIDX)
    off = sorted(a for a, v in asg.items() if not v and a in G.SIDX and a.startswith(('sev:', 'cert:')))
    return 'on: %s; off: %s' % (','.join(on) or '-', ','.join(off) or '-')


def r27_3(ctx):
    """R27.3  options gate, they do not choose: a function that selects one ValueFlow::Value out of a token's candidates (returns a
    `const ValueFlow::Value *` found by a loop) tests the severity / certainty options only on the selected value, after the loop.  If a
    candidate is skipped inside the loop because it is not enabled, the *choice* depends on the options, and enabling one more option can
    replace or remove a finding that was already reported (non-monotone), although every single report is still correctly gated."""
    from .common.facts import walk, strip
    F = ctx.facts
    ctx.rule('R27.3', 'value-selecting functions test the options after the selection loop, not inside it')
    OPT = ('Settings::severity', 'Settings::certainty')
    n = 0
    for f in F.all_fns():
        if not f['file'].startswith('lib/'):
            continue
        b = F.body(f)
        if b is None:
            continue
        rets = [x for x in walk(b['body']) if x.get('k') == 'ReturnStmt']
        if not any('ValueFlow::Value *' in (y.get('t') or '') for r in rets for y in walk(r)):
            continue
        loops = [x for x in walk(b['body']) if x.get('k') in ('ForStmt', 'CXXForRangeStmt', 'WhileStmt')]
        if not loops:
            continue
        n += 1
        # locals that hold an option test
        optlocals = {x['di'] for x in walk(b['body']) if x.get('k') == 'VarDecl' and x.get('init') is not None and
                     any(y.get('k') == 'MemberExpr' and y.get('n') in OPT for y in walk(x['init']))}
        hits = []
        for lp in loops:
            for y in walk(lp.get('body') or {}):
                if (y.get('k') == 'MemberExpr' and y.get('n') in OPT) or (y.get('k') == 'DeclRefExpr' and y.get('di') in optlocals):
                    hits.append(y['l'])
                if y.get('k') == 'CXXMemberCallExpr' and y.get('fn') == 'Settings::isEnabled':
                    hits.append(y['l'])
        ctx.ob('R27.3', 'select:%s' % f['name'], not hits,
               ('%s selects among the candidate values without consulting the severity / certainty options inside its loop' % f['name']) if not hits else
               ('%s tests the severity / certainty options inside its selection loop (line %s): which value is chosen depends on the options, so a run with more options '
                'enabled can report a different value and drop the finding the smaller option set produced' % (f['name'], sorted(set(hits)))),
               '%s:%s' % (f['file'], hits[0] if hits else f['line']))
    ctx.floor('R27.3 value-selecting functions', n, 6)


def r27_4(ctx):
    """R27.4  options gate, they are not search parameters: when the result of a severity / certainty test (directly or through a local bool)
    is passed as an argument to a repo function that returns data, the callee (and whoever it hands the parameter on to, 3 levels) may use the
    parameter only as a pure gate: as the whole condition of an `if` (possibly negated, possibly combined with other option tests or
    constants).  A condition that combines the parameter with data (`!warning && call->warning`) and controls a continue / break / return /
    assignment makes the *result of the search* depend on the option: enabling the option can replace an already reported finding by a
    different one (CTU::FileInfo::findPath is such a function; its caller passes the loop variable of a strict-then-relaxed search, never
    the option itself)."""
    from .common.facts import walk, walk_parents, strip_all, call_args
    F = ctx.facts
    ctx.rule('R27.4', 'an option test passed to a data-returning function is used there only as a pure gate, never combined with data to steer a search')
    OPT = ('Settings::severity', 'Settings::certainty')

    def is_opt_expr(n, optlocals):
        for y in walk(n):
            if y.get('k') == 'CXXMemberCallExpr' and (y.get('fn') or '').endswith('isEnabled') and \
                    any(z.get('k') == 'MemberExpr' and z.get('n') in OPT for z in walk(y)):
                return True
            if y.get('k') == 'DeclRefExpr' and y.get('di') in optlocals:
                return True
        return False

    def selecting_uses(g, pdi, depth, seen):
        """lines where parameter pdi of g is combined with data in a condition that steers control flow / data"""
        key = (F.key(g), pdi)
        if key in seen or depth < 0:
            return []
        seen.add(key)
        b = F.body(g)
        if b is None:
            return []
        out = []
        body = b['body']
        for x, parents in walk_parents(body):
            if x.get('k') in ('IfStmt', 'WhileStmt', 'ForStmt', 'ConditionalOperator') :
                c = x.get('cond') if x.get('k') != 'ConditionalOperator' else (x['c'][0] if x.get('c') else None)
                if c is None or not any(y.get('k') == 'DeclRefExpr' and y.get('di') == pdi for y in walk(c)):
                    continue
                # other operands: anything that is not the parameter, a literal, or an option test
                data = [y for y in walk(c) if (y.get('k') == 'DeclRefExpr' and y.get('di') != pdi and y.get('dk') in ('Var', 'ParmVar')) or
                        (y.get('k') == 'MemberExpr' and y.get('dk') == 'Field' and y.get('n') not in OPT)]
                if not data:
                    continue
                branches = [x.get('then'), x.get('else')] if x.get('k') == 'IfStmt' else ([x.get('body')] if x.get('k') != 'ConditionalOperator' else x['c'][1:])
                steers = any(y.get('k') in ('ContinueStmt', 'BreakStmt', 'ReturnStmt') or
                             (y.get('k') in ('BinaryOperator', 'CXXOperatorCallExpr', 'CompoundAssignOperator') and (y.get('op') or '') in ('=', '+=', '|='))
                             for br in branches if br for y in walk(br)) or x.get('k') == 'ConditionalOperator'
                if steers:
                    out.append('%s:%s' % (g['file'], x['l']))
        # handed on
        for x in walk(body):
            if x.get('k') in ('CallExpr', 'CXXMemberCallExpr') and x.get('fid'):
                for i, a in enumerate(call_args(x)):
                    a0 = strip_all(a)
                    if a0.get('k') == 'DeclRefExpr' and a0.get('di') == pdi:
                        for h in F.resolve(g, x['fid']):
                            if h['file'].startswith('lib/') and i < len(h['params']):
                                out += selecting_uses(h, h['params'][i]['di'], depth - 1, seen)
        return out
    n = 0
    done = set()
    for f in F.all_fns():
        if not f['file'].startswith('lib/') or F.key(f) in done:
            continue
        done.add(F.key(f))
        if not any(a['n'] in OPT for a in f['acc']):
            continue
        b = F.body(f)
        if b is None:
            continue
        body = b['body']
        optlocals = {v['di'] for v in walk(body) if v.get('k') == 'VarDecl' and v.get('init') is not None and 'bool' in (v.get('t') or '') and is_opt_expr(v['init'], ())}
        for x in walk(body):
            if x.get('k') in ('CallExpr', 'CXXMemberCallExpr') and x.get('fid') and not (x.get('fn') or '').endswith('isEnabled'):
                for i, a in enumerate(call_args(x)):
                    if not is_opt_expr(a, optlocals):
                        continue
                    for g in F.resolve(f, x['fid']):
                        if not g['file'].startswith('lib/') or i >= len(g['params']) or (g.get('ret') or 'void') == 'void':
                            continue
                        if 'bool' not in g['params'][i]['t']:
                            continue
                        n += 1
                        uses = selecting_uses(g, g['params'][i]['di'], 3, set())
                        ctx.ob('R27.4', 'option-as-argument:%s->%s' % (f['name'], g['name']), not uses,
                               ('%s passes an option test to parameter %s of %s, which uses it only as a pure gate' % (f['name'], g['params'][i]['n'], g['name'])) if not uses else
                               ('%s passes the result of a severity / certainty test as parameter %s of %s (line %s); the callee combines it with data to steer its search (%s): which '
                                'result is returned depends on the option, so enabling it can replace a finding that was already reported with the option off'
                                % (f['name'], g['params'][i]['n'], g['name'], x['l'], ', '.join(sorted(set(uses))[:3]))), '%s:%s' % (f['file'], x['l']))
    ctx.floor('R27.4 option tests passed to data-returning functions', n, 1)


def r27_5(ctx):
    """R27.5  option tests gate reports, not check state: inside a branch controlled by a severity / certainty test a Check may report, but must not
    modify its own member state (directly or through a member function that writes a field of the class).  State written only when an option is on is
    read by later code of the same check (de-duplication registers, "already diagnosed" sets), so enabling the option changes or removes findings that do
    not depend on the option themselves."""
    from .common.facts import walk
    F = ctx.facts
    ctx.rule('R27.5', 'no Check modifies its member state inside a branch controlled by a severity / certainty test')
    OPT = ('Settings::severity', 'Settings::certainty')

    def is_opt(n, optlocals):
        for y in walk(n):
            if y.get('k') == 'CXXMemberCallExpr' and (y.get('fn') or '').endswith('isEnabled') and any(z.get('k') == 'MemberExpr' and z.get('n') in OPT for z in walk(y)):
                return True
            if y.get('k') == 'DeclRefExpr' and y.get('di') in optlocals:
                return True
        return False
    writers = {}
    for f in F.all_fns():
        if f['file'].startswith('lib/check') and f.get('cls'):
            w = sorted({a['n'] for a in f['acc'] if a['n'].startswith(f['cls'] + '::') and a['a'] not in ('r', 'a')})
            if w:
                writers[f['id']] = (f, w)
    seen = set()
    nbranches = 0
    hits = {}
    for f in F.all_fns():
        if not f['file'].startswith('lib/check') or F.key(f) in seen or not f.get('cls'):
            continue
        seen.add(F.key(f))
        if not any(a['n'] in OPT for a in f['acc']):
            continue
        b = F.body(f)
        if b is None:
            continue
        body = b['body']
        optlocals = {v['di'] for v in walk(body) if v.get('k') == 'VarDecl' and v.get('init') is not None and 'bool' in (v.get('t') or '') and is_opt(v['init'], ())}
        for x in walk(body):
            if x.get('k') == 'IfStmt' and x.get('cond') is not None and is_opt(x['cond'], optlocals):
                nbranches += 1
                for br in (x.get('then'), x.get('else')):
                    for y in walk(br or {}):
                        if y.get('k') == 'CXXMemberCallExpr' and y.get('fid') in writers and writers[y['fid']][0].get('cls') == f['cls']:
                            g, w = writers[y['fid']]
                            hits.setdefault((f['name'], g['name']), (f, y['l'], 'calls %s, which writes %s' % (g['name'], ', '.join(w[:2]))))
                        if y.get('k') == 'MemberExpr' and y.get('dk') == 'Field' and (y.get('n') or '').startswith(f['cls'] + '::') and (y.get('a') or 'r') not in ('r', 'a'):
                            hits.setdefault((f['name'], y['n']), (f, y['l'], 'writes %s' % y['n']))
    ctx.floor('R27.5 branches controlled by an option test in lib/check*.cpp', nbranches, 100)

    # a hit counts only when the state is also used outside option-controlled branches (state that only ever feeds the optional reports is harmless)
    def used_outside(cls, fields):
        for g in F.all_fns():
            if g.get('cls') != cls or not g['file'].startswith('lib/check'):
                continue
            gb = F.body(g)
            if gb is None:
                continue
            direct = [a for a in g['acc'] if a['n'] in fields]
            if direct and len(list(walk(gb['body']))) < 40:
                continue            # the accessor itself
            ol = {v['di'] for v in walk(gb['body']) if v.get('k') == 'VarDecl' and v.get('init') is not None and 'bool' in (v.get('t') or '') and is_opt(v['init'], ())}
            guarded = set()
            for x in walk(gb['body']):
                if x.get('k') == 'IfStmt' and x.get('cond') is not None and is_opt(x['cond'], ol):
                    for br in (x.get('then'), x.get('else')):
                        for y in walk(br or {}):
                            guarded.add(id(y))
            for y in walk(gb['body']):
                if id(y) in guarded:
                    continue
                if y.get('k') == 'MemberExpr' and y.get('n') in fields:
                    return '%s line %s' % (g['name'], y['l'])
                if y.get('k') == 'CXXMemberCallExpr' and y.get('fid') in writers and set(writers[y['fid']][1]) & set(fields):
                    return '%s line %s' % (g['name'], y['l'])
        return None
    for (fname, what), (f, line, text) in sorted(hits.items()):
        fields = writers[[k for k, (g, w) in writers.items() if g['name'] == what][0]][1] if '::' in what and any(g['name'] == what for g, w in writers.values()) else [what]
        outside = used_outside(f['cls'], set(fields))
        if outside is None:
            ctx.note('R27.5: %s %s at line %s under an option test; the state is used only inside option-controlled branches (not armed)' % (fname, text, line))
            continue
        text += '; the same state is used outside option-controlled branches (%s)' % outside
        ctx.ob('R27.5', 'state-under-option:%s:%s' % (fname, what.split('::')[-1]), False,
               '%s %s at line %s inside a branch controlled by a severity / certainty test: later reports of the check that read this state change when the option is enabled'
               % (fname, text, line), '%s:%s' % (f['file'], line))
    ctx.ob('R27.5', 'state-under-option-census', True, '%d option-controlled branches in lib/check*.cpp inspected, %d modify member state' % (nbranches, len(hits)), 'lib/check*.cpp')
