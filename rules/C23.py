"""C23  Suppressions hide exactly the matching findings (no finding bypasses the gate).

Decides the "only if" half that is visible in the code's shape: every finding that reaches the
user-visible logger has passed a suppression test.  The matching rules themselves (globs, line
ranges, block nesting) are value semantics of isSuppressed()/PathMatch and are not decided.

R23.1  CppCheck::mErrorLoggerDirect (the logger handed in from outside) is used only as the constructor
       argument of the wrapper / of nested CppCheck objects; every other component gets mErrorLogger
       (the CppCheckLogger wrapper).
R23.2  CppCheckLogger::reportErr: (a) the branch for `nomsg.isSuppressed(...)` sets the local flag on every
       path that leaves it; (b) every forward to the wrapped logger of a non-internal message is either
       after `if (suppressed) return;` or inside the safety-mode arm (mSettings.safety &&
       isCriticalErrorId); (c) the flag is not reassigned between the test and the forward.
R23.3  cli/: every direct reportErr on the raw logger in the executors is dominated by hasToLog(msg)
       (which tests the suppressions); the other sites are the unmatched-suppression reporter and the
       XML header/footer strings.
R23.4  Executor::hasToLog consults SuppressionList::isSuppressed (nomsg) before it accepts a message.
"""
from .common.facts import walk, walk_parents, strip, strip_all, call_args, AnalysisBroken
from .common import paths


def conjuncts(n):
    """operands of a (possibly nested) && condition"""
    n = strip(n)
    while n is not None and n.get('k') == 'ParenExpr' and n.get('c'):
        n = strip(n['c'][0])
    if n is not None and n.get('k') == 'BinaryOperator' and n.get('op') == '&&':
        return conjuncts(n['c'][0]) + conjuncts(n['c'][1])
    return [n] if n is not None else []


def run(ctx):
    F = ctx.facts
    for rid, t in [('R23.1', 'the raw logger is used only to construct wrappers'),
                   ('R23.2', 'CppCheckLogger::reportErr forwards a finding only after the suppression test'),
                   ('R23.3', 'direct reportErr calls on the raw logger in cli/ are dominated by hasToLog'),
                   ('R23.4', 'hasToLog consults the suppression list')]:
        ctx.rule(rid, t)

    r23_5(ctx)
    r23_6(ctx)
    # ---- R23.1 ------------------------------------------------------------------------------------------
    users = []
    for f in F.all_fns():
        if any(a['n'] == 'CppCheck::mErrorLoggerDirect' for a in f['acc']):
            users.append(f)
    ctx.floor('R23.1 functions touching CppCheck::mErrorLoggerDirect', len(users), 1)
    for f in users:
        b = F.body(f)
        nodes = [b['body']] + [i['init'] for i in b.get('inits', ()) if i.get('init')]
        for root in nodes:
            for x, parents in walk_parents(root):
                if x.get('k') == 'MemberExpr' and x.get('n') == 'CppCheck::mErrorLoggerDirect':
                    ctor = None
                    bad = None
                    for p in reversed(parents):
                        if p.get('k') in ('ImplicitCastExpr',):
                            continue
                        if p.get('k') in ('CXXConstructExpr', 'CXXTemporaryObjectExpr') and p.get('cls') in ('CppCheck', 'CppCheck::CppCheckLogger'):
                            ctor = p
                        else:
                            bad = p
                        break
                    ok = ctor is not None
                    ctx.ob('R23.1', 'direct-use:%s' % f['name'], ok,
                           ('%s passes the raw logger to the constructor of %s' % (f['name'], ctor['cls'])) if ok else
                           ('%s uses the raw, suppression-unaware logger CppCheck::mErrorLoggerDirect directly (%s at line %s): findings sent there bypass '
                            'suppressions, exit-code accounting and the duplicate filter' % (f['name'], (bad or {}).get('k'), x['l'])),
                           '%s:%s' % (f['file'], x['l']))
        # constructor member-init of the field itself is fine
    # ---- R23.2 ------------------------------------------------------------------------------------------
    cands = [f for f in F.find('CppCheck::CppCheckLogger::reportErr')]
    if len(cands) != 1:
        raise AnalysisBroken('CppCheck::CppCheckLogger::reportErr: %d definitions' % len(cands))
    lr = cands[0]
    body = F.body(lr)['body']
    flag = None
    for x in walk(body):
        if x.get('k') == 'VarDecl' and x.get('n') == 'suppressed' and (x.get('t') or '') == 'bool':
            flag = x['di']
    if flag is None:
        # any bool local assigned true inside the isSuppressed arm
        raise AnalysisBroken('CppCheckLogger::reportErr: local suppression flag not found')

    def is_nomsg_suppressed(n):
        n0 = strip(n)
        return n0 is not None and n0.get('k') == 'CXXMemberCallExpr' and n0.get('fn') == 'SuppressionList::isSuppressed' and \
            any(y.get('k') == 'MemberExpr' and y.get('n') == 'Suppressions::nomsg' for y in walk(n0['c'][0]))

    def cond(n, truth):
        n0 = strip(n)
        out = []
        if n0 is None:
            return out
        if n0.get('k') == 'DeclRefExpr' and n0.get('di') == flag:
            out.append(('flag', truth))
        if is_nomsg_suppressed(n0):
            out.append(('nomsg-suppressed', truth))
        if n0.get('k') == 'MemberExpr' and n0.get('n') == 'Settings::safety':
            out.append(('safety', truth))
        if n0.get('k') in ('CallExpr', 'CXXMemberCallExpr') and (n0.get('fn') or '').endswith('isCriticalErrorId'):
            out.append(('critical', truth))
        if n0.get('k') == 'BinaryOperator' and n0.get('op') in ('==', '!=') and any(y.get('n') == 'Severity::internal' for y in walk(n0)) and \
                any(y.get('k') == 'MemberExpr' and y.get('n') == 'ErrorMessage::severity' for y in walk(n0)):
            out.append(('internal', (n0['op'] == '==') == truth))
        return out

    def gen(n):
        if n.get('k') == 'BinaryOperator' and n.get('op') == '=' and strip(n['c'][0]).get('di') == flag:
            v = strip(n['c'][1])
            if v.get('k') == 'CXXBoolLiteralExpr' and v.get('v') is True:
                return ('flag-set',)
        return ()

    def kill(n):
        if n.get('k') == 'BinaryOperator' and n.get('op') == '=' and strip(n['c'][0]).get('di') == flag:
            return (('flag', False), ('flag', True))
        return ()

    def observe(n):
        if n.get('k') == 'CXXMemberCallExpr' and n.get('fn') == 'ErrorLogger::reportErr':
            recv = strip(n['c'][0]['c'][0]) if n['c'][0].get('c') else None
            return recv is not None and recv.get('k') == 'MemberExpr' and 'mErrorLogger' in recv.get('n', '')
        return False

    res = paths.analyse(body, cond=cond, gen=gen, kill=kill, observe=observe)
    fw = [(res.at_node[i], st) for i, st in res.at.items()]
    ctx.floor('R23.2 forwards to the wrapped logger', len(fw), 3)
    for i, (n, st) in enumerate(sorted(fw, key=lambda x: x[0]['l'])):
        if ('internal', True) in st:
            ctx.ob('R23.2', 'forward#%d' % i, True, 'forward of an internal (logChecker) message, not a finding', '%s:%s' % (lr['file'], n['l']))
            continue
        ok = ('flag', False) in st or (('nomsg-suppressed', True) in st and ('safety', True) in st and ('critical', True) in st)
        ctx.ob('R23.2', 'forward#%d' % i, ok,
               ('forward at line %s happens only for unsuppressed findings (or in the safety-mode arm for critical ids)' % n['l']) if ok else
               ('the finding is forwarded to the user-visible logger at line %s on a path where the suppression test has not ruled out a match '
                '(must-hold facts: %s)' % (n['l'], sorted(str(x) for x in st))), '%s:%s' % (lr['file'], n['l']))
    # (a) the arm sets the flag on every fallthrough
    arm = None
    for x in walk(body):
        if x.get('k') == 'IfStmt' and x.get('cond') is not None and any(is_nomsg_suppressed(c) for c in conjuncts(x['cond'])):
            arm = x
            break
    if arm is None:
        ctx.ob('R23.2', 'suppression-arm', False, 'CppCheckLogger::reportErr no longer has an `if (nomsg.isSuppressed(...))` arm that records the match',
               '%s:%d' % (lr['file'], lr['line']))
    else:
        m = paths.Must(gen=gen)
        out, br, co = m.stmt(arm.get('then'), frozenset())
        ok = out is None or 'flag-set' in out
        ctx.ob('R23.2', 'suppression-arm', ok, 'every path through the isSuppressed arm records the match in the flag' if ok else
               'a path through the `if (nomsg.isSuppressed(...))` arm leaves it without setting the flag: a suppressed finding is forwarded',
               '%s:%s' % (lr['file'], arm['l']))

    # ---- R23.3 / R23.4 ----------------------------------------------------------------------------------------
    ALLOWED_RAW = {
        'CppCheckExecutor::reportUnmatchedSuppressions': 'reports unmatchedSuppression findings themselves',
        'CppCheckExecutor::check_internal': 'XML header / footer strings (not findings)',
        'StdLogger::reportErr': 'the sink itself',
    }
    nraw = 0
    for f in F.all_fns():
        if not f['file'].startswith('cli/'):
            continue
        if not any(c['f'].startswith('ErrorLogger::reportErr(') for c in f['calls']):
            continue
        b = F.body(f)
        if b is None:
            continue

        def cond3(n, truth):
            n0 = strip(n)
            if n0 is not None and n0.get('k') == 'CXXMemberCallExpr' and (n0.get('fn') or '').endswith('::hasToLog'):
                return (('hasToLog', truth),)
            return ()

        def obs3(n):
            return n.get('k') == 'CXXMemberCallExpr' and n.get('fn') == 'ErrorLogger::reportErr'

        try:
            r3 = paths.analyse(b['body'], cond=cond3, observe=obs3)
        except AnalysisBroken:
            continue
        for i, st in r3.at.items():
            n = r3.at_node[i]
            nraw += 1
            if f['name'] in ALLOWED_RAW:
                ctx.ob('R23.3', 'raw:%s' % f['name'], True, 'direct reportErr in %s: %s' % (f['name'], ALLOWED_RAW[f['name']]), '%s:%s' % (f['file'], n['l']))
                continue
            ok = ('hasToLog', True) in st
            ctx.ob('R23.3', 'raw:%s' % f['name'], ok,
                   ('%s forwards to the raw logger only after hasToLog(msg)' % f['name']) if ok else
                   ('%s calls reportErr on the raw logger at line %s without a dominating hasToLog(msg): suppressed or duplicate findings of a worker are shown'
                    % (f['name'], n['l'])), '%s:%s' % (f['file'], n['l']))
    ctx.floor('R23.3 direct reportErr calls in cli/', nraw, 4)
    h = F.one('Executor::hasToLog')
    consults = any(c['f'].startswith('SuppressionList::isSuppressed(') for c in h['calls']) and any(a['n'] == 'Suppressions::nomsg' for a in h['acc'])
    ctx.ob('R23.4', 'hasToLog', consults, 'Executor::hasToLog tests mSuppressions.nomsg.isSuppressed(...)' if consults else
           'Executor::hasToLog no longer consults the nomsg suppression list', '%s:%d' % (h['file'], h['line']))


def r23_5(ctx):
    """R23.5  one implementation of base-path stripping: a suppression matches a finding by file name, and with -rp both names are
    relative.  Every reader of Settings::basePaths in lib/ (outside the option parsers) passes it straight to Path::getRelativePath,
    so the name of an inline suppression (preprocessor) and the name of a finding (TokenList) are produced by the same function."""
    F = ctx.facts
    ctx.rule('R23.5', 'base paths are stripped only by Path::getRelativePath (suppression and finding file names agree)')
    SETUP = ('ImportProject::', 'CmdLineParser::', 'Settings::')
    n = 0
    for f in F.all_fns():
        if not f['file'].startswith('lib/') or f['name'].startswith(SETUP):
            continue
        if not any(a['n'] == 'Settings::basePaths' for a in f['acc']):
            continue
        b = F.body(f)
        if b is None:
            continue
        for x, parents in walk_parents(b['body']):
            if x.get('k') == 'MemberExpr' and x.get('n') == 'Settings::basePaths':
                n += 1
                call = None
                for p in reversed(parents):
                    if p.get('k') in ('ImplicitCastExpr', 'MaterializeTemporaryExpr'):
                        continue
                    call = p
                    break
                ok = call is not None and call.get('k') == 'CallExpr' and call.get('fn') == 'Path::getRelativePath'
                ctx.ob('R23.5', 'basepaths:%s' % f['name'], ok,
                       ('%s passes the base paths to Path::getRelativePath' % f['name']) if ok else
                       ('%s reads Settings::basePaths at line %s outside a Path::getRelativePath call (%s): a private copy of the stripping logic can disagree with the '
                        'names used in findings, and then file-scoped (inline) suppressions silently stop matching' % (f['name'], x['l'], (call or {}).get('k'))),
                       '%s:%s' % (f['file'], x['l']))
    ctx.floor('R23.5 readers of Settings::basePaths in lib/', n, 4)


def r23_6(ctx):
    """R23.6  documented matching rule for the macro form: a `cppcheck-suppress-macro` suppression applies wherever the macro is expanded.  Its fileName is
    the file of the #define, the finding's file is the file of the expansion, so the macro arm of Suppression::isSuppressed must not consult fileName."""
    F = ctx.facts
    ctx.rule('R23.6', 'the macro arm of Suppression::isSuppressed does not match on the suppression\'s file name')
    f = F.one('SuppressionList::Suppression::isSuppressed')
    body = F.body(f)['body']
    arm = None
    for x in walk(body):
        if x.get('k') == 'IfStmt' and x.get('cond') is not None:
            c = strip(x['cond'])
            if c is not None and c.get('k') == 'BinaryOperator' and c.get('op') == '==' and any(y.get('n') == 'SuppressionList::Suppression::type' for y in walk(c)) and \
                    any((y.get('n') or '').endswith('Type::macro') for y in walk(c)):
                arm = x
                break
    if arm is None:
        raise AnalysisBroken('Suppression::isSuppressed: the `type == Type::macro` arm was not found')
    reads = [y for y in walk(arm.get('then') or {}) if y.get('k') == 'MemberExpr' and y.get('n') == 'SuppressionList::Suppression::fileName']
    ctx.ob('R23.6', 'macro-arm-no-file', not reads, 'the macro arm matches on the macro name (and hash / id), not on the file of the #define' if not reads else
           'the macro arm of Suppression::isSuppressed reads Suppression::fileName (line %s): the suppression carries the file of the #define, findings carry the file of the '
           'expansion, so a macro suppressed in a header is no longer suppressed where it is used' % reads[0]['l'], '%s:%s' % (f['file'], (reads[0]['l'] if reads else arm['l'])))
