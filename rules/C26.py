"""C26  Reports are faithful in every output format (structured emission + schema agreement).

Decides: the XML result file is produced only through the escaping printer, the element / attribute
vocabulary it can contain is the one cppcheck-errors.rng allows (and the required attributes are always
written), free-text operands are sanitised before they enter XML, the SARIF document is built only from
JSON values, and every documented --template field is substituted.  "Exactly once" and the equality of
the finding sets across formats are not decided.

R26.1  ErrorMessage::toXML / getXMLHeader: every piece of markup comes from tinyxml2::XMLPrinter calls; the
       returned string is printer.CStr() (plus literal-only text); no literal in these functions contains '<'.
R26.2  every PushAttribute / PushText operand of string kind is classified: sanitised by fixInvalidChars, numeric,
       an enum-to-string value, a literal; raw std::string operands are reported unless tabled (VALUE_SAFE with the
       value argument, UNDECIDED with the reason).
R26.3  schema agreement (cppcheck-errors.rng parsed as XML): for every element the writer opens, each attribute it
       can push is declared for that element, each attribute the schema requires is pushed unconditionally, child
       elements are declared, and the strings the writer can produce for `severity` of a finding that reaches the
       XML sink are among the schema's choices.
R26.4  SarifReport::serialize returns picojson::value::serialize(); no function of lib/sarifreport.cpp builds JSON
       structure by string concatenation (no literal containing '{', '[' or '":').
R26.6  the duplicate filter in StdLogger::reportErr (in front of all three writers) does not depend on the output format.
R26.5  every {field} documented under --template / --template-location in the help text is substituted by
       ErrorMessage::toString (set inclusion on the string literals).
"""
import os
import re
import xml.etree.ElementTree as ET

from .common.facts import walk, walk_parents, strip, strip_all, call_args, AnalysisBroken
from .common.xmlmodel import const_string

RNG = 'cppcheck-errors.rng'
NS = '{http://relaxng.org/ns/structure/1.0}'
VALUE_SAFE = {
    ('error', 'guideline'): 'taken from the checkers tables / addon guideline mapping (identifier-like strings)',
    ('error', 'classification'): 'taken from the checkers tables (words such as Required, Advisory)',
    ('cppcheck', 'product-name'): 'from the product\'s own cppcheck.cfg (installation file), not from analysed input',
    ('cppcheck', 'version'): 'CppCheck::version() constant, or the version part of the product name from cppcheck.cfg',
}
UNDECIDED = {
    ('error', 'id'): 'built-in ids are identifiers; addon ids are "<addon>-<errorId>" with errorId taken from the addon\'s JSON without a character check',
    ('symbol', '#text'): 'symbol names come from "$symbol:" lines of the message; built-in checks pass identifiers, an addon message could carry any text',
}


def schema_model(root):
    """element name -> {'req': set, 'opt': set, 'children': set, 'values': {attr: set}} from the RNG (closed content)."""
    out = {}

    def visit(el, cur, optional):
        tag = el.tag.replace(NS, '')
        if tag == 'element':
            name = el.get('name')
            m = out.setdefault(name, {'req': set(), 'opt': set(), 'children': set(), 'values': {}})
            if cur is not None:
                out[cur]['children'].add(name)
            for c in el:
                visit(c, name, False)
            return
        if tag == 'attribute':
            name = el.get('name')
            (out[cur]['opt'] if optional else out[cur]['req']).add(name)
            vals = {v.text for v in el.iter(NS + 'value')}
            if vals:
                out[cur]['values'][name] = vals
            return
        if tag in ('optional', 'zeroOrMore'):
            for c in el:
                visit(c, cur, True if tag == 'optional' or c.tag == NS + 'attribute' else optional)
            return
        for c in el:
            visit(c, cur, optional)
    visit(root, None, False)
    return out


def printer_ops(F, fn):
    """sequence of (kind, name, node, conditional) for XMLPrinter calls in document order; conditional = nested under an if / loop
    relative to the element it belongs to (loops that open their own element reset the flag)."""
    body = F.body(fn)['body']
    ops = []

    def visit(n, cond):
        if n is None:
            return
        k = n.get('k')
        if k == 'CXXMemberCallExpr' and (n.get('fn') or '').startswith('tinyxml2::XMLPrinter::'):
            m = n['fn'].split('::')[-1]
            args = call_args(n)
            name = const_string(F, body, args[0]) if args else None
            ops.append((m, name, n, cond))
            return
        if k == 'IfStmt':
            visit(n.get('cond'), cond)
            visit(n.get('then'), True)
            visit(n.get('else'), True)
            return
        if k in ('ForStmt', 'WhileStmt', 'CXXForRangeStmt', 'DoStmt'):
            visit(n.get('body'), 'loop')
            return
        for key in ('c', 'decls'):
            for c in n.get(key, ()) or ():
                visit(c, cond)
        for key in ('init', 'body', 'sub'):
            if isinstance(n.get(key), dict):
                visit(n[key], cond)
    visit(body, False)
    return ops


def run(ctx):
    F = ctx.facts
    for rid, t in [('R26.1', 'XML markup is produced only by tinyxml2::XMLPrinter'),
                   ('R26.2', 'string operands of the XML printer are sanitised, numeric, enum strings or literals'),
                   ('R26.3', 'the emitted element/attribute vocabulary is the one cppcheck-errors.rng allows'),
                   ('R26.4', 'the SARIF document is built from JSON values only'),
                   ('R26.5', 'every documented template field is substituted')]:
        ctx.rule(rid, t)
    tox = F.one('ErrorMessage::toXML')
    hdr = F.one('ErrorMessage::getXMLHeader')

    # ---- R26.1 ------------------------------------------------------------------------------------------------
    for f in (tox, hdr):
        body = F.body(f)['body']
        lits = [x for x in walk(body) if x.get('k') == 'StringLiteral' and '<' in (x.get('v') or '')]
        rets = [x for x in walk(body) if x.get('k') == 'ReturnStmt']
        via_printer = all(any(y.get('k') == 'CXXMemberCallExpr' and (y.get('fn') or '').endswith('XMLPrinter::CStr') for y in walk(r)) for r in rets)
        dyn_concat = False
        for r in rets:
            for y in walk(r):
                if y.get('k') == 'CXXOperatorCallExpr' and y.get('op') == '+':
                    for a in y['c'][1:]:
                        a0 = strip_all(a)
                        if a0.get('k') in ('StringLiteral', 'CharacterLiteral') or any(z.get('k') == 'CXXMemberCallExpr' and (z.get('fn') or '').endswith('XMLPrinter::CStr') for z in walk(a)) \
                                or a0.get('k') == 'CXXOperatorCallExpr':
                            continue
                        dyn_concat = True
        ok = not lits and via_printer and not dyn_concat
        ctx.ob('R26.1', 'printer-only:%s' % f['name'], ok, ('%s returns XMLPrinter output; no markup literal, no run-time string concatenated outside the printer' % f['name']) if ok else
               ('%s builds markup outside tinyxml2::XMLPrinter (markup literals: %s, returns printer output: %s, run-time concatenation: %s)' %
                (f['name'], [x['l'] for x in lits], via_printer, dyn_concat)), '%s:%d' % (f['file'], f['line']))

    # ---- R26.2 / R26.3 ------------------------------------------------------------------------------------------------
    rng_path = os.path.join(ctx.root, RNG)
    if not os.path.exists(rng_path):
        raise AnalysisBroken('%s not found' % RNG)
    model = schema_model(ET.parse(rng_path).getroot())
    ctx.floor('R26.3 elements declared by the schema', len(model), 5)
    nattr = 0
    written = {}      # element -> {attr: conditional}
    children = {}
    for f in (hdr, tox):
        stack = []
        body = F.body(f)['body']
        for m, name, n, cond in printer_ops(F, f):
            if m == 'OpenElement':
                if stack:
                    children.setdefault(stack[-1][0], set()).add(name)
                stack.append((name, cond))
                written.setdefault(name, {})
            elif m == 'CloseElement':
                if stack:
                    stack.pop()
            elif m in ('PushAttribute', 'PushText'):
                if not stack:
                    continue
                el, elcond = stack[-1]
                attr = name if m == 'PushAttribute' else '#text'
                unconditional = (cond == elcond) or (cond is False)
                prev = written[el].get(attr)
                written[el][attr] = unconditional or bool(prev)
                if m == 'PushAttribute' and attr is None:
                    ctx.ob('R26.3', 'attr-name:%s:%s' % (el, n['l']), False, 'attribute name of <%s> at line %s is not a literal' % (el, n['l']), '%s:%s' % (f['file'], n['l']))
                    continue
                nattr += 1
                # R26.2 operand classification
                val = call_args(n)[1] if m == 'PushAttribute' else call_args(n)[0]
                v0 = strip_all(val)
                t = (val.get('t') or '')
                where = '%s:%s' % (f['file'], n['l'])
                key = 'operand:%s@%s' % (el, attr)
                if const_string(F, body, val) is not None:
                    ctx.ob('R26.2', key, True, '<%s %s> gets a literal' % (el, attr), where)
                elif 'char' not in t and 'string' not in t:
                    ctx.ob('R26.2', key, True, '<%s %s> gets a number (%s)' % (el, attr, t), where)
                else:
                    calls = [y.get('fn') for y in walk(val) if y.get('k') in ('CallExpr', 'CXXMemberCallExpr') and y.get('fn')]
                    if any(c == 'ErrorMessage::fixInvalidChars' for c in calls):
                        ctx.ob('R26.2', key, True, '<%s %s> passes fixInvalidChars' % (el, attr), where)
                    elif any(c in ('severityToString', 'std::to_string') for c in calls):
                        ctx.ob('R26.2', key, True, '<%s %s> gets an enum name / number rendering' % (el, attr), where)
                    elif (el, attr) in VALUE_SAFE:
                        ctx.ob('R26.2', key, True, '<%s %s> gets a raw string that cannot contain control characters: %s' % (el, attr, VALUE_SAFE[(el, attr)]), where)
                    elif (el, attr) in UNDECIDED:
                        ctx.note('R26.2 undecided: <%s %s> (%s) - %s' % (el, attr, where, UNDECIDED[(el, attr)]))
                    else:
                        ctx.ob('R26.2', key, False,
                               '<%s %s> gets a raw run-time string (not passed through fixInvalidChars like msg/verbose/info/remark): a control character in it makes the '
                               'XML output ill-formed (tinyxml2 escapes only <, >, &, quotes)' % (el, attr), where)
    ctx.floor('R26.2 printer operands', nattr, 15)
    for el, attrs in sorted(written.items()):
        where = '%s:%d' % (tox['file'], tox['line'])
        if el not in model:
            ctx.ob('R26.3', 'element:%s' % el, False, 'the writer opens <%s>, which cppcheck-errors.rng does not declare' % el, where)
            continue
        decl = model[el]['req'] | model[el]['opt']
        for a, uncond in sorted(attrs.items()):
            if a == '#text':
                continue
            ok = a in decl
            ctx.ob('R26.3', 'attr:%s@%s' % (el, a), ok, ('<%s %s> is declared by the schema' % (el, a)) if ok else
                   ('the writer can push attribute "%s" on <%s> but cppcheck-errors.rng does not declare it (closed content): a result file that carries it does not validate'
                    % (a, el)), where)
        for a in sorted(model[el]['req']):
            ok = attrs.get(a) is True
            ctx.ob('R26.3', 'required:%s@%s' % (el, a), ok, ('required attribute %s of <%s> is always written' % (a, el)) if ok else
                   ('cppcheck-errors.rng requires attribute "%s" on <%s> but the writer %s' % (a, el, 'writes it only conditionally' if a in attrs else 'never writes it')), where)
        for c in sorted(children.get(el, ())):
            ok = c in model[el]['children']
            ctx.ob('R26.3', 'child:%s>%s' % (el, c), ok, ('<%s> inside <%s> is declared' % (c, el)) if ok else
                   ('the writer nests <%s> in <%s>, which the schema does not allow' % (c, el)), where)
    # severity vocabulary: strings severityToString can return, minus those filtered before the XML sink
    sts = F.one('severityToString')
    sv = sorted({x.get('v') for x in walk(F.body(sts)['body']) if x.get('k') == 'StringLiteral'})
    allowed = model.get('error', {}).get('values', {}).get('severity', set())
    NOT_REACHING = {'none': 'Severity::none is never given to a finding', 'internal': 'internal messages are not printed (StdLogger / CppCheckLogger filter them)'}
    for v in sv:
        if not v:
            continue
        if v in NOT_REACHING:
            ctx.note('R26.3 severity "%s" is outside the schema choice but %s' % (v, NOT_REACHING[v]))
            continue
        ok = v in allowed
        ctx.ob('R26.3', 'severity-value:%s' % v, ok, ('severity="%s" is among the schema\'s choices' % v) if ok else
               ('severityToString can return "%s" for a finding that reaches the XML output but the schema\'s <choice> for severity does not list it' % v),
               '%s:%d' % (sts['file'], sts['line']))

    r26_6(ctx)
    r26_7(ctx)
    r26_8(ctx)

    # ---- R26.4 ------------------------------------------------------------------------------------------------------
    sar = [f for f in F.all_fns() if f['file'] == 'lib/sarifreport.cpp' and F.body(f) is not None]
    ctx.floor('R26.4 functions in lib/sarifreport.cpp', len(sar), 4)
    ser = F.one('SarifReport::serialize')
    rets = [x for x in walk(F.body(ser)['body']) if x.get('k') == 'ReturnStmt']
    ok = bool(rets) and all(any(y.get('k') == 'CXXMemberCallExpr' and (y.get('fn') or '').startswith('picojson::value::serialize') for y in walk(r)) for r in rets)
    ctx.ob('R26.4', 'serialize-returns-json', ok, 'SarifReport::serialize returns picojson::value::serialize()' if ok else
           'SarifReport::serialize does not return the serialisation of a picojson value', '%s:%d' % (ser['file'], ser['line']))
    structural = []
    for f in sar:
        b = F.body(f)['body']
        for x, parents in walk_parents(b):
            if x.get('k') == 'StringLiteral' and re.search(r'[{\[]\s*"|":', x.get('v') or ''):
                # the literal is harmless when everything concatenated with it is a constant or an already serialised JSON value
                top = None
                for p_ in reversed(parents):
                    if p_.get('k') == 'CXXOperatorCallExpr' and p_.get('op') in ('+', '+='):
                        top = p_
                    elif p_.get('k') in ('ImplicitCastExpr', 'MaterializeTemporaryExpr', 'CXXBindTemporaryExpr', 'CXXConstructExpr', 'ExprWithCleanups'):
                        continue
                    else:
                        break
                bad = []
                if top is not None:
                    def leaves(n):
                        n0 = strip_all(n)
                        if n0.get('k') == 'CXXOperatorCallExpr' and n0.get('op') == '+':
                            return leaves(n0['c'][1]) + leaves(n0['c'][2])
                        return [n0]
                    for lf in leaves(top):
                        if const_string(F, b, lf) is not None:
                            continue
                        if any(y.get('k') == 'CXXMemberCallExpr' and (y.get('fn') or '').startswith('picojson::value::serialize') for y in walk(lf)):
                            continue
                        bad.append(lf.get('k'))
                if bad:
                    structural.append('%s:%s' % (f['name'], x['l']))
    ctx.ob('R26.4', 'no-json-literals', not structural, 'no run-time text is concatenated with a literal that carries JSON structure in lib/sarifreport.cpp' if not structural else
           'JSON structure is spelled in string literals and concatenated with run-time text at %s: that text is not escaped' % structural[:4], 'lib/sarifreport.cpp')

    # ---- R26.5 ------------------------------------------------------------------------------------------------------
    ts = [f for f in F.find('ErrorMessage::toString')]
    subst = set()
    for f in ts:
        for x in walk(F.body(f)['body']):
            if x.get('k') == 'StringLiteral':
                for m in re.findall(r'\{[a-z]+[:}]', x.get('v') or ''):
                    subst.add(m.rstrip(':}').lstrip('{'))
    ph = F.one('CmdLineParser::printHelp')
    documented = set()
    for x in walk(F.body(ph)['body']):
        if x.get('k') == 'StringLiteral':
            for line in (x.get('v') or '').split('\n'):
                m = re.match(r'\s+\{([a-z]+)[:}][^ ]*\s{2,}\S', line)
                if m:
                    documented.add(m.group(1))
    ctx.floor('R26.5 documented template fields', len(documented), 8)
    for fld in sorted(documented):
        ok = fld in subst
        ctx.ob('R26.5', 'field:%s' % fld, ok, ('{%s} is substituted by ErrorMessage::toString' % fld) if ok else
               ('the help text documents the template field {%s} but ErrorMessage::toString never replaces it: it is printed verbatim' % fld),
               '%s:%d' % (ph['file'], ph['line']))


def r26_6(ctx):
    """R26.6  the three formats carry the same findings only if the duplicate filter in front of them does not depend on the format: in
    StdLogger::reportErr the key inserted into mShownErrors is computed without reading Settings::outputFormat (directly or through locals),
    and the insertion is not guarded by a condition on the output format."""
    from .common import paths
    F = ctx.facts
    ctx.rule('R26.6', 'the duplicate filter in front of the text / XML / SARIF writers is format-independent')
    cands = [f for f in F.find('StdLogger::reportErr') if f.get('params') and 'ErrorMessage' in f['params'][0]['t']]
    if len(cands) != 1:
        raise AnalysisBroken('StdLogger::reportErr(const ErrorMessage&): %d candidates' % len(cands))
    f = cands[0]
    body = F.body(f)['body']
    inits = {x['di']: x['init'] for x in walk(body) if x.get('k') == 'VarDecl' and x.get('init') is not None}

    def reads_format(expr, seen=None):
        seen = seen or set()
        for y in walk(expr):
            if y.get('k') == 'MemberExpr' and y.get('n') == 'Settings::outputFormat':
                return True
            if y.get('k') == 'DeclRefExpr' and y.get('di') in inits and y['di'] not in seen:
                seen.add(y['di'])
                if reads_format(inits[y['di']], seen):
                    return True
        return False
    ins = [x for x in walk(body) if x.get('k') == 'CXXMemberCallExpr' and (x.get('fn') or '').split('::')[-1] in ('insert', 'emplace') and
           any(y.get('k') == 'MemberExpr' and y.get('n') == 'StdLogger::mShownErrors' for y in walk(x['c'][0]))]
    ctx.floor('R26.6 insertions into StdLogger::mShownErrors', len(ins), 1)

    def cond(n, truth):
        n0 = strip(n)
        if n0 is not None and reads_format(n0):
            return (('format-dependent', truth),)
        return ()
    r = paths.analyse(body, cond=cond, observe=lambda n: any(n is i for i in ins))
    for i, x in enumerate(ins):
        args = call_args(x)
        dep = any(reads_format(a) for a in args)
        st = r.at.get(id(x), frozenset())
        guarded = any(isinstance(l, tuple) and l[0] == 'format-dependent' for l in st)
        # the key must also be independent of the user's text template: XML and SARIF do not use the template, but a template that omits the
        # location makes distinct findings share a key
        def reads_template(expr, seen=None):
            seen = seen or set()
            for y in walk(expr):
                if y.get('k') == 'MemberExpr' and y.get('n') in ('Settings::templateFormat', 'Settings::templateLocation'):
                    return True
                if y.get('k') == 'DeclRefExpr' and y.get('di') in inits and y['di'] not in seen:
                    seen.add(y['di'])
                    if reads_template(inits[y['di']], seen):
                        return True
            return False
        tdep = any(reads_template(a) for a in args)
        ctx.ob('R26.6', 'dedup-key-template#%d' % i, not tdep, 'the key of the duplicate filter does not depend on the user\'s --template' if not tdep else
               'the duplicate filter of StdLogger::reportErr uses the finding rendered with the user\'s --template as its key, also for XML and SARIF output: a template without '
               'location fields makes distinct findings equal, and they are dropped from the XML / SARIF report', '%s:%s' % (f['file'], x['l']))
        ok = not dep and not guarded
        ctx.ob('R26.6', 'dedup-key#%d' % i, ok, 'the key of the duplicate filter is computed the same way for every output format' if ok else
               ('the duplicate filter of StdLogger::reportErr %s: two findings can be distinct in one format and collapsed in another, so text, XML and SARIF '
                'no longer carry the same findings' % ('computes its key from Settings::outputFormat' if dep else 'is guarded by a condition on the output format')),
               '%s:%s' % (f['file'], x['l']))


def r26_7(ctx):
    """R26.7  per-result fields come from the finding itself: in SarifReport::serializeResults the value stored under "level" (and "locations", "message") is computed
    from the current finding - by passing it to a helper or reading its members - not looked up by rule id.  A rule id does not determine the severity (one id is
    reported with several severities), so a per-rule lookup gives later findings the level of the first one."""
    F = ctx.facts
    ctx.rule('R26.7', 'SARIF result fields are computed from the finding, not looked up by rule id')
    f = F.one('SarifReport::serializeResults')
    body = F.body(f)['body']
    loop = next((x for x in walk(body) if x.get('k') == 'CXXForRangeStmt' and x.get('var') is not None), None)
    if loop is None:
        raise AnalysisBroken('SarifReport::serializeResults: loop over the findings not found')
    fv = loop['var']['di']
    n = 0
    for x in walk(loop.get('body') or {}):
        if x.get('k') == 'CXXOperatorCallExpr' and x.get('op') == '=' and len(x.get('c', ())) >= 3:
            lhs = x['c'][1]
            key = None
            for y in walk(lhs):
                if y.get('k') == 'CXXOperatorCallExpr' and y.get('op') == '[]':
                    key = next((z.get('v') for z in walk(y) if z.get('k') == 'StringLiteral'), None)
            if key not in ('level', 'locations'):
                continue
            n += 1
            rhs = x['c'][2]
            whole = False      # the finding object itself is an argument of a call
            members = set()
            for y in walk(rhs):
                if y.get('k') in ('CallExpr', 'CXXMemberCallExpr'):
                    for a in call_args(y):
                        a0 = strip(a)
                        while a0 is not None and a0.get('k') == 'ImplicitCastExpr' and a0.get('c'):
                            a0 = a0['c'][0]
                        if a0 is not None and a0.get('k') == 'DeclRefExpr' and a0.get('di') == fv:
                            whole = True
                if y.get('k') == 'MemberExpr' and y.get('dk') == 'Field' and any(z.get('di') == fv for z in walk(y)):
                    members.add((y.get('n') or '').split('::')[-1])
            ok = whole or bool(members - {'id'})
            ctx.ob('R26.7', 'result-field:%s' % key, ok, ('"%s" of a SARIF result is computed from the finding' % key) if ok else
                   ('"%s" of a SARIF result is derived only from %s (line %s): findings that share an id but differ in severity / location get the value of another finding, '
                    'so the SARIF report no longer carries the same levels as the text and XML output' % (key, sorted(members) or 'data that is not the finding', x['l'])),
                   '%s:%s' % (f['file'], x['l']))
    ctx.floor('R26.7 per-result fields checked', n, 2)


def r26_8(ctx):
    """R26.8  the SARIF writer carries every finding: the loop of SarifReport::serializeResults over the collected findings has no continue / break / return
    that skips a finding.  (Today one: findings without a location are skipped "because github only supports findings with locations" - text and XML output
    carry them, so this is a known finding.)"""
    from .common.facts import walk_parents
    F = ctx.facts
    ctx.rule('R26.8', 'no finding is skipped by the SARIF result loop')
    f = F.one('SarifReport::serializeResults')
    body = F.body(f)['body']
    loop = next((x for x in walk(body) if x.get('k') == 'CXXForRangeStmt' and x.get('var') is not None), None)
    if loop is None:
        raise AnalysisBroken('SarifReport::serializeResults: loop over the findings not found')
    fv = loop['var']['di']
    n = 0
    for x, parents in walk_parents(loop.get('body') or {}):
        if x.get('k') not in ('ContinueStmt', 'BreakStmt', 'ReturnStmt'):
            continue
        if any(p.get('k') in ('ForStmt', 'WhileStmt', 'DoStmt', 'CXXForRangeStmt', 'SwitchStmt', 'LambdaExpr') for p in parents):
            continue
        n += 1
        conds = [p['cond'] for p in parents if p.get('k') == 'IfStmt' and p.get('cond') is not None]
        sig = sorted({(y.get('n') or '').split('::')[-1] for c in conds for y in walk(c) if y.get('k') == 'MemberExpr' and y.get('dk') == 'Field' and
                      any(z.get('di') == fv for z in walk(y))}) or ['unconditional']
        ctx.ob('R26.8', 'sarif-skip:%s' % '+'.join(sig), False,
               'SarifReport::serializeResults skips a finding (%s at line %s, condition on %s): the finding is part of the text and XML output but not of the SARIF output'
               % (x['k'], x['l'], ', '.join(sig)), '%s:%s' % (f['file'], x['l']))
    ctx.ob('R26.8', 'sarif-skip-census', True, 'the SARIF result loop has %d skipping statement(s)' % n, '%s:%s' % (f['file'], loop['l']))
