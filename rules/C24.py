"""C24  Unmatched suppressions are reported exactly (state transfer from the workers).

Decides: the checked/matched state a worker computed for a suppression reaches the parent's copy of
that suppression, for every executor.  Which suppressions *should* count as unmatched is not decided.

R24.1  process executor, slot agreement: the k-th ';'-separated part written by
       PipeWriter::suppressionToString is restored by ProcessExecutor::handleRead into the member it was
       taken from (slot 0: toString() <-> parseLine()), and the reader's minimum part count equals the
       number of parts written.
R24.2  coverage: every member of SuppressionList::Suppression that the parent-side consumers read
       (isSameParameters, used to find the parent's copy; Suppression::isSuppressed, used for whole-program findings and
       the parent-side gate; getUnmatchedLocal/Global/InlineSuppressions) is
       carried: by an explicit slot, by toString()/parseLine() (read by one, written by the other), or by
       the signal kind (isInline); the VALUE_SAFE table lists members that are consumed but need no
       transfer, with the reason.
R24.3  every worker result path hands the state over: the forked worker calls writeSuppr before writeEnd,
       writeSuppr sends every inline and every checked suppression, the reader adds or updates
       (addSuppression, else updateSuppressionState); the thread worker propagates inline and global state
       after check().
"""
from .common.facts import walk, walk_parents, strip, strip_all, call_args, AnalysisBroken
from .common import paths

S = 'SuppressionList::Suppression'

# members consumed in the parent that need no transfer, with the value argument (empty since fix e0ca0ac: the two former entries, `type` and
# `thisAndNextLine`, were wrong - whole-program findings are matched against the transferred inline suppressions in the parent)
VALUE_SAFE = {
    'fileIndex': 'index into the worker\'s file table; the parent matches by fileName',
}


def sfields(n):
    out = []
    for y in walk(n):
        if y.get('k') == 'MemberExpr' and y.get('dk') == 'Field' and (y.get('n') or '').startswith(S + '::'):
            f = y['n'].split('::')[-1]
            if f not in out:
                out.append(f)
    return out


def part_index(n, var_di):
    if n.get('k') == 'CXXOperatorCallExpr' and n.get('op') == '[]' and len(n.get('c', ())) >= 3:
        base, idx = strip(n['c'][1]), strip(n['c'][2])
        while base is not None and base.get('k') == 'ImplicitCastExpr' and base.get('c'):
            base = base['c'][0]
        if base is not None and base.get('di') == var_di and idx is not None and idx.get('k') == 'IntegerLiteral':
            return int(idx['v'])
    return None


def add_or_merge(F, fn):
    """every call of SuppressionList::addSuppression in fn binds its result to a local `err`, and a later statement of the same block is
    `if (!err.empty()) { ... updateSuppressionState(...) ... }` with the update as an unconditional statement of that branch."""
    body = F.body(fn)['body']
    adds = 0
    # alternative order "update first, add when unknown": addSuppression inside `if (!updateSuppressionState(..)) { .. }`
    update_first = set()
    for x in walk(body):
        if x.get('k') == 'IfStmt' and x.get('cond') is not None:
            c0 = strip(x['cond'])
            if c0 is not None and c0.get('k') == 'UnaryOperator' and c0.get('op') == '!' and (strip(c0['c'][0]) or {}).get('fn') == 'SuppressionList::updateSuppressionState':
                for y in walk(x.get('then') or {}):
                    update_first.add(id(y))
    for blk in walk(body):
        if blk.get('k') != 'CompoundStmt':
            continue
        sts = blk.get('c', ())
        for i, st in enumerate(sts):
            calls = [y for y in walk(st) if y.get('k') == 'CXXMemberCallExpr' and y.get('fn') == 'SuppressionList::addSuppression']
            if not calls or any(c_.get('k') in ('CompoundStmt', 'IfStmt', 'ForStmt', 'WhileStmt', 'CXXForRangeStmt') for c_ in [st]):
                continue
            adds += 1
            if id(calls[0]) in update_first:
                continue
            err = None
            if st.get('k') == 'DeclStmt':
                for d in st.get('decls', ()):
                    if d.get('init') is not None and any(y is calls[0] for y in walk(d['init'])):
                        err = d['di']
            if err is None:
                return False, 'the result of addSuppression at line %s is discarded' % st['l'], st['l']
            merged = False
            for later in sts[i + 1:]:
                if later.get('k') != 'IfStmt':
                    continue
                c0 = strip(later.get('cond'))
                branch = None
                if c0 is not None and c0.get('k') == 'UnaryOperator' and c0.get('op') == '!':
                    inner = strip(c0['c'][0])
                    if inner.get('k') == 'CXXMemberCallExpr' and (inner.get('fn') or '').endswith('::empty') and any(y.get('di') == err for y in walk(inner['c'][0])):
                        branch = later.get('then')
                elif c0 is not None and c0.get('k') == 'CXXMemberCallExpr' and (c0.get('fn') or '').endswith('::empty') and any(y.get('di') == err for y in walk(c0['c'][0])):
                    branch = later.get('else')
                if branch is None:
                    continue
                bs = branch.get('c', ()) if branch.get('k') == 'CompoundStmt' else [branch]
                if any(strip(b_).get('k') == 'CXXMemberCallExpr' and strip(b_).get('fn') == 'SuppressionList::updateSuppressionState' for b_ in bs):
                    merged = True
            if not merged:
                return False, 'after addSuppression at line %s there is no `if (!err.empty()) updateSuppressionState(...)` on the failure path' % st['l'], st['l']
    if adds == 0:
        return False, 'no addSuppression call found (received suppressions are not taken over)', None
    return True, '', None


def run(ctx):
    F = ctx.facts
    for rid, t in [('R24.1', 'suppression state encoding: writer and reader agree slot by slot'),
                   ('R24.2', 'every member the parent-side consumers read is carried'),
                   ('R24.3', 'every worker result path hands the suppression state over')]:
        ctx.rule(rid, t)

    w = F.one('PipeWriter::suppressionToString')
    wb = F.body(w)['body']
    hr = F.one('ProcessExecutor::handleRead')
    hb = F.body(hr)['body']

    # ---- writer slots ----------------------------------------------------------------------------------------------
    slots = []       # list of (line, descriptor) ; descriptor = ('call','toString') or ('field', name)
    for st in wb.get('c', ()):
        exprs = []
        if st.get('k') == 'DeclStmt':
            for d in st.get('decls', ()):
                if d.get('init') is not None:
                    exprs.append(d['init'])
        else:
            s0 = strip(st)
            if s0.get('k') == 'CXXOperatorCallExpr' and s0.get('op') == '+=':
                exprs.append(s0['c'][2])
        for e in exprs:
            e0 = strip_all(e)
            if e0.get('k') == 'StringLiteral' or e0.get('k') == 'CharacterLiteral':
                continue
            tos = [y for y in walk(e) if y.get('k') == 'CXXMemberCallExpr' and y.get('fn') == S + '::toString']
            if tos:
                slots.append((e['l'], ('call', 'toString')))
                continue
            fs = sfields(e)
            if len(fs) == 1:
                slots.append((e['l'], ('field', fs[0])))
            elif fs:
                slots.append((e['l'], ('fields', tuple(fs))))
    ctx.floor('R24.1 parts written by suppressionToString', len(slots), 5)

    # ---- reader slots ----------------------------------------------------------------------------------------------
    # the arm handling REPORT_SUPPR*: find local `parts` and `suppr`
    arm = None
    for x in walk(hb):
        if x.get('k') == 'IfStmt' and x.get('cond') is not None and any(y.get('dk') == 'EnumConstant' and y['n'].endswith('REPORT_SUPPR') for y in walk(x['cond'])) \
                and x.get('then') is not None and any(y.get('k') == 'CallExpr' and y.get('fn') == 'SuppressionList::parseLine' for y in walk(x['then'])):
            arm = x['then']
    if arm is None:
        raise AnalysisBroken('handleRead: suppression arm not found')
    parts = next((x['di'] for x in walk(arm) if x.get('k') == 'VarDecl' and x.get('n') == 'parts'), None)
    if parts is None:
        raise AnalysisBroken('handleRead: local parts not found')
    rmap = {}
    minparts = None
    for x in walk(arm):
        if x.get('k') == 'VarDecl' and x.get('init') is not None and any(y.get('fn') == 'SuppressionList::parseLine' for y in walk(x['init'])):
            ks = {part_index(y, parts) for y in walk(x['init'])} - {None}
            for k in ks:
                rmap[k] = ('call', 'parseLine')
        if x.get('k') in ('BinaryOperator', 'CXXOperatorCallExpr') and x.get('op') == '=':
            lhs = x['c'][0] if x['k'] == 'BinaryOperator' else x['c'][1]
            rhs = x['c'][1] if x['k'] == 'BinaryOperator' else x['c'][2]
            fs = sfields(lhs)
            ks = {part_index(y, parts) for y in walk(rhs)} - {None}
            if len(fs) == 1 and len(ks) == 1:
                rmap[ks.pop()] = ('field', fs[0])
        if x.get('k') == 'BinaryOperator' and x.get('op') in ('<', '<=', '!=') and any(y.get('fn', '').endswith('::size') for y in walk(x['c'][0])) and \
                any(y.get('di') == parts for y in walk(x['c'][0])):
            r = strip(x['c'][1])
            if r.get('k') == 'IntegerLiteral':
                minparts = int(r['v']) if x['op'] == '<' else int(r['v']) + 1 if x['op'] == '<=' else int(r['v'])
    for k, (line, d) in enumerate(slots):
        r = rmap.get(k)
        ok = (d == ('call', 'toString') and r == ('call', 'parseLine')) or (d[0] == 'field' and r == d)
        ctx.ob('R24.1', 'slot:%d' % k, ok, ('part %d carries %s on both sides' % (k, d[1] if d[0] == 'field' else 'toString()/parseLine()')) if ok else
               ('part %d: the worker writes %s (line %s) but the parent restores parts[%d] into %s' % (k, d[1], line, k, r[1] if r else 'nothing')),
               '%s:%s' % (w['file'], line))
    ok = minparts == len(slots)
    ctx.ob('R24.1', 'min-parts', ok, ('the reader requires %d parts, the writer writes %d' % (minparts or 0, len(slots))) if ok else
           ('the reader requires at least %s parts but the writer writes %d: %s' % (minparts, len(slots), 'the indexed accesses can run past the vector' if (minparts or 0) < len(slots)
                                                                                   else 'every suppression message aborts the parent')), '%s:%d' % (hr['file'], hr['line']))

    # ---- R24.2 coverage -----------------------------------------------------------------------------------------------
    carried = {}
    for line, d in slots:
        if d[0] == 'field':
            carried[d[1]] = 'explicit slot'
    ts = F.one(S + '::toString')
    pl = F.one('SuppressionList::parseLine')
    ts_reads = {a['n'].split('::')[-1] for a in ts['acc'] if a['n'].startswith(S + '::')}
    pl_writes = {a['n'].split('::')[-1] for a in pl['acc'] if a['n'].startswith(S + '::') and a['a'] != 'r'}
    for f in ts_reads & pl_writes:
        carried.setdefault(f, 'toString()/parseLine()')
    # signal kind
    for x in walk(arm):
        if x.get('k') == 'BinaryOperator' and x.get('op') == '=' and sfields(x['c'][0]) == ['isInline'] and any(y.get('dk') == 'EnumConstant' for y in walk(x['c'][1])):
            carried.setdefault('isInline', 'signal kind (REPORT_SUPPR_INLINE)')
    consumers = [S + '::isSameParameters', S + '::isSuppressed', 'SuppressionList::getUnmatchedLocalSuppressions', 'SuppressionList::getUnmatchedGlobalSuppressions',
                 'SuppressionList::getUnmatchedInlineSuppressions']
    consumed = {}
    for c in consumers:
        fn = F.one(c)
        for g, _ in [(fn, None)] + [(v[0], None) for v in F.reachable([fn], stop=lambda f: not f['name'].startswith(S + '::')).values()]:
            if g is not fn and not g['name'].startswith(S + '::'):
                continue
            for a in g['acc']:
                if a['n'].startswith(S + '::'):
                    consumed.setdefault(a['n'].split('::')[-1], set()).add(c.split('::')[-1])
    ctx.floor('R24.2 members read by the parent-side consumers', len(consumed), 8)
    rec = F.recs[S]
    for m in sorted(consumed):
        where = '%s:%s' % (rec['file'], next((f['l'] for f in rec['fields'] if f['n'] == m), rec['line']))
        by = ', '.join(sorted(consumed[m]))
        if m in carried:
            ctx.ob('R24.2', 'member:%s' % m, True, 'Suppression::%s (read by %s) is carried by %s' % (m, by, carried[m]), where)
        elif m in VALUE_SAFE:
            ctx.ob('R24.2', 'member:%s' % m, True, 'Suppression::%s (read by %s) needs no transfer: %s' % (m, by, VALUE_SAFE[m]), where)
        else:
            ctx.ob('R24.2', 'member:%s' % m, False,
                   'Suppression::%s is read by %s in the parent but is not part of the worker->parent encoding: the parent cannot find / judge its copy of the '
                   'suppression, so the process executor reports unmatched suppressions differently from a single job' % (m, by), where)
    # fields that toString writes but parseLine does not restore (or vice versa) would desynchronise slot 0
    for f in sorted(ts_reads - pl_writes):
        ctx.ob('R24.2', 'tostring-only:%s' % f, False, 'Suppression::%s is written by toString() but not restored by parseLine()' % f, '%s:%d' % (ts['file'], ts['line']))

    # ---- R24.3 hand-over on every worker result path ---------------------------------------------------------------------
    pe = F.one('ProcessExecutor::check')
    peb = F.body(pe)['body']

    def gen(n):
        if n.get('k') == 'CXXMemberCallExpr' and (n.get('fn') or '').endswith('PipeWriter::writeSuppr'):
            return ('suppr-written',)
        return ()
    r = paths.analyse(peb, gen=gen, observe=lambda n: n.get('k') == 'CXXMemberCallExpr' and (n.get('fn') or '').endswith('PipeWriter::writeEnd'))
    ends = list(r.at.items())
    ctx.floor('R24.3 writeEnd sites in the forked worker', len(ends), 1)
    for i, st in ends:
        ok = 'suppr-written' in st
        ctx.ob('R24.3', 'worker-writes-suppr', ok, 'the forked worker sends the suppression state before CHILD_END' if ok else
               'the forked worker reaches writeEnd (line %s) on a path that has not called writeSuppr: the parent never learns which suppressions matched' % r.at_node[i]['l'],
               '%s:%s' % (pe['file'], r.at_node[i]['l']))
    ws = F.one('PipeWriter::writeSuppr')
    wsb = F.body(ws)['body']

    def cond(n, truth):
        n0 = strip(n)
        fs = sfields(n0) if n0 is not None and n0.get('k') == 'MemberExpr' else []
        if fs == ['isInline']:
            return (('inline', truth),)
        if fs == ['checked']:
            return (('checked', truth),)
        return ()
    r = paths.analyse(wsb, cond=cond, observe=lambda n: n.get('k') == 'CXXMemberCallExpr' and (n.get('fn') or '').endswith('writeToPipe'))
    sent_inline = any(('inline', True) in st and ('checked', True) not in st for st in r.at.values())
    sent_checked = any(('inline', False) in st and ('checked', True) in st for st in r.at.values())
    ctx.ob('R24.3', 'writeSuppr-inline', sent_inline, 'writeSuppr sends every inline suppression' if sent_inline else
           'writeSuppr no longer sends every inline suppression (the parent reports unmatched inline suppressions from this list)', '%s:%d' % (ws['file'], ws['line']))
    ctx.ob('R24.3', 'writeSuppr-checked', sent_checked, 'writeSuppr sends every checked non-inline suppression' if sent_checked else
           'writeSuppr no longer sends the checked non-inline suppressions', '%s:%d' % (ws['file'], ws['line']))
    for fn_, label in ((hr, 'reader-merges'), (F.one('ThreadData::check'), 'thread-propagates')):
        ok, why, line = add_or_merge(F, fn_)
        ctx.ob('R24.3', label, ok,
               ('%s: every addSuppression whose failure means "already known" is followed by updateSuppressionState on the failure path (state of later workers is merged, not dropped)'
                % fn_['name']) if ok else
               ('%s: %s - the checked/matched state a later worker reports for a suppression the parent already knows (inline suppression in a header shared by two files) is dropped, '
                'so the result depends on which worker finishes first' % (fn_['name'], why)), '%s:%s' % (fn_['file'], line or fn_['line']))
    uss = F.one('SuppressionList::updateSuppressionState')
    wr = {a['n'].split('::')[-1] for a in uss['acc'] if a['n'].startswith(S + '::') and a['a'] != 'r'}
    ok = {'checked', 'matched'} <= wr
    # monotone merge: the stored flags only ever go from false to true (an OR over all workers); `flag = true` or `flag |= x` / `flag = flag || x`
    ub = F.body(uss)['body']
    nonmono = []
    for x in walk(ub):
        if x.get('k') in ('BinaryOperator', 'CompoundAssignOperator') and x.get('op') in ('=', '|=', '&=') and sfields(x['c'][0]) and sfields(x['c'][0])[0] in ('checked', 'matched'):
            rhs = strip(x['c'][1])
            while rhs is not None and rhs.get('k') == 'ImplicitCastExpr' and rhs.get('c'):
                rhs = rhs['c'][0]
            fld = sfields(x['c'][0])[0]
            if x['op'] == '|=':
                continue
            if x['op'] == '=' and rhs is not None and rhs.get('k') == 'CXXBoolLiteralExpr' and rhs.get('v') is True:
                continue
            if x['op'] == '=' and rhs is not None and rhs.get('k') == 'BinaryOperator' and rhs.get('op') == '||' and fld in sfields(rhs):
                continue
            nonmono.append((fld, x['l']))
    ctx.ob('R24.3', 'update-monotone', not nonmono, 'updateSuppressionState only raises the stored checked / matched flags (OR over all workers)' if not nonmono else
           'updateSuppressionState overwrites the stored %s flag at line %s instead of OR-ing it: a worker that only checked a suppression resets the match another worker found, '
           'so the unmatched-suppression report depends on which worker is merged last' % nonmono[0], '%s:%s' % (uss['file'], nonmono[0][1] if nonmono else uss['line']))
    ctx.ob('R24.3', 'update-merges-both', ok, 'updateSuppressionState merges both checked and matched' if ok else
           'updateSuppressionState does not merge %s' % sorted({'checked', 'matched'} - wr), '%s:%d' % (uss['file'], uss['line']))
