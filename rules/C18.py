"""C18  Incremental analysis is transparent across edit histories (cache-key clause).

Decides: the per-file cache key encodes every token's spelling, line and column of the file
and of every header it loaded without a lossy (narrowing) conversion, is computed after the
inline suppressions were collected, and is compared as a whole when a cache file is accepted.

R18.1  in Preprocessor::calculateHash no value derived from Location::line/col passes through an
       integral narrowing cast before it is appended.
R18.2  both token sources (Preprocessor::mTokens and every Preprocessor::mFileCache entry) are
       iterated and each loop appends str(), line and col.
R18.5  the contributions of the files are not accumulated with a commutative operator (xor/add of sub-hashes loses
       order and, for xor, cancels equal contributions).  Rules 1, 2 and 5 look at calculateHash together with the
       helpers of lib/preprocessor.cpp it calls.
R18.6  the key depends on the name of every loaded file (simplecpp::FileData::filename is read by the key functions).
R18.7  AnalyzerInformation::reopen writes the stored content back unchanged (the findings of a cache-hit file exist only there).
R18.3  in CppCheck::checkInternal every path to the calculateHash call for the analysed file passes
       Preprocessor::inlineSuppressions, and CppCheck::calculateHash dumps Suppressions::nomsg.
R18.4  AnalyzerInformation::skipAnalysis compares the stored hash attribute with the full decimal
       rendering of the key (std::to_string(hash)), and the 'accept' return is dominated by it.
"""
from .common.facts import walk, walk_parents, AnalysisBroken, strip, strip_all
from .common import paths

WIDTH = {'char': 8, 'signed char': 8, 'unsigned char': 8, 'bool': 1, 'std::uint8_t': 8, 'uint8_t': 8, 'std::int8_t': 8,
         'int8_t': 8, 'short': 16, 'unsigned short': 16, 'std::uint16_t': 16, 'uint16_t': 16, 'std::int16_t': 16,
         'int16_t': 16, 'char16_t': 16, 'wchar_t': 32, 'char32_t': 32, 'int': 32, 'unsigned int': 32, 'unsigned': 32,
         'std::uint32_t': 32, 'uint32_t': 32, 'std::int32_t': 32, 'int32_t': 32}


def width(t):
    t = (t or '').replace('const ', '').strip()
    return WIDTH.get(t, 64)


INTEGRAL = ('std::size_t', 'size_t', 'unsigned long', 'unsigned int', 'unsigned long long', 'std::uint64_t', 'std::uint32_t', 'uint64_t', 'uint32_t', 'int', 'long')
COMM_OPS = {'^=': '^', '+=': '+', '|=': '|', '&=': '&', '*=': '*'}


def commutative_accumulations(body):
    """`acc OP= e` / `acc = acc OP e` inside a loop, acc integral, e a call result that does not mention acc, OP commutative:
    the accumulated value is independent of the order of the contributions (and for ^ two equal ones cancel).
    The hash_combine idiom (`seed ^= v + C + (seed << 6) + (seed >> 2)`) mentions acc on the right and is not matched."""
    out = []
    for lp in walk(body):
        if lp.get('k') not in ('ForStmt', 'WhileStmt', 'CXXForRangeStmt', 'DoStmt'):
            continue
        for n in walk(lp.get('body') or {}):
            acc = rhs = None
            if n.get('k') == 'CompoundAssignOperator' and n.get('op') in COMM_OPS:
                acc, rhs = strip(n['c'][0]), n['c'][1]
            elif n.get('k') == 'BinaryOperator' and n.get('op') == '=':
                r = strip(n['c'][1])
                if r is not None and r.get('k') == 'BinaryOperator' and r.get('op') in COMM_OPS.values():
                    l0 = strip(n['c'][0])
                    for a, b in ((r['c'][0], r['c'][1]), (r['c'][1], r['c'][0])):
                        if strip(a).get('di') is not None and strip(a).get('di') == l0.get('di'):
                            acc, rhs = l0, b
            if acc is None or acc.get('k') != 'DeclRefExpr' or (acc.get('t') or '').replace('const ', '') not in INTEGRAL:
                continue
            if any(y.get('di') == acc.get('di') for y in walk(rhs)):
                continue
            if not any(y.get('k') in ('CallExpr', 'CXXMemberCallExpr', 'CXXOperatorCallExpr') for y in walk(rhs)):
                continue
            if n not in out:
                out.append(n)
    return out


_POSITIVE_EXAMPLE = {'k': 'CompoundStmt', 'c': [{'k': 'ForStmt', 'l': 1, 'body': {'k': 'CompoundStmt', 'c': [
    {'k': 'CompoundAssignOperator', 'op': '^=', 'l': 2, 'c': [{'k': 'DeclRefExpr', 't': 'std::size_t', 'di': '1:1', 'n': 'h'},
                                                               {'k': 'CallExpr', 'fn': 'g', 'c': []}]}]}}]}


def run(ctx):
    F = ctx.facts
    ctx.rule('R18.6', 'the key identifies the set of loaded files, not only their tokens')
    ctx.rule('R18.5', 'sub-hashes of the files are combined order- and multiplicity-sensitively')
    ctx.rule('R18.1', 'no integral narrowing between simplecpp::Location::{line,col} and the hashed string in '
                      'Preprocessor::calculateHash')
    ctx.rule('R18.2', 'both token sources are iterated and every loop that appends str() also appends line and col')
    ctx.rule('R18.3', 'the key is computed after inline suppressions were collected and includes the suppression dump')
    ctx.rule('R18.4', 'the cache acceptance test compares the whole key')

    ph = F.one('Preprocessor::calculateHash')
    where = '%s:%d' % (ph['file'], ph['line'])
    # the key function set: calculateHash and the helpers of its own file it (transitively) calls
    reach = F.reachable([ph], stop=lambda f: f['file'] != ph['file'])
    K = [v[0] for v in reach.values() if v[0]['file'] == ph['file'] and F.body(v[0]) is not None]
    bodies = [(f, F.body(f)['body']) for f in K]
    ctx.counts['functions computing the preprocessor key'] = len(K)

    # R18.1
    uses = []
    for f, body in bodies:
        for n, parents in walk_parents(body):
            if n.get('k') == 'MemberExpr' and n.get('n') in ('simplecpp::Location::line', 'simplecpp::Location::col',
                                                             'simplecpp::Location::fileIndex'):
                narrowing = None
                src_w = width(n.get('t'))
                for p in reversed(parents):
                    k = p.get('k', '')
                    if k.endswith('CastExpr') and p.get('ck') in ('IntegralCast', 'IntegralToBoolean', 'NoOp') or k == 'CStyleCastExpr':
                        if p.get('ck') == 'IntegralCast' and width(p.get('t')) < src_w:
                            narrowing = p
                            break
                        continue
                    if k in ('ImplicitCastExpr',):
                        continue
                    break
                uses.append((n, narrowing, f))
    fields_seen = {n['n'].rsplit('::', 1)[1] for n, _, _ in uses}
    for n, nar, f in uses:
        fld = n['n'].rsplit('::', 1)[1]
        idx = sum(1 for m, _, _ in uses if m['n'] == n['n'] and (m['l'], m['col']) < (n['l'], n['col']))
        ctx.ob('R18.1', 'narrow:%s#%d' % (fld, idx), nar is None,
               ('token %s is appended without loss' % fld) if nar is None else
               'token %s (%s) is converted to %s before it is hashed: edits that shift code by a multiple of 2^%d '
               '%ss leave the key unchanged' % (fld, n.get('t'), nar.get('t'), width(nar.get('t')), fld),
               '%s:%d' % (f['file'], n['l']))
    for fld in ('line', 'col'):
        ctx.ob('R18.1', 'position:%s' % fld, fld in fields_seen, ('the key depends on every token\'s %s' % fld) if fld in fields_seen else
               'no function computing the key reads simplecpp::Location::%s: edits that only move code leave the key unchanged' % fld, where)

    # R18.2
    srcs = {a['n'] for f in K for a in f['acc']}
    for fld in ('Preprocessor::mTokens', 'Preprocessor::mFileCache'):
        ctx.ob('R18.2', 'source:' + fld, fld in srcs,
               '%s %s iterated by the key' % (fld, 'is' if fld in srcs else 'is NOT'), where)
    loops = []
    for f, body in bodies:
        for n in walk(body):
            if n.get('k') in ('ForStmt', 'WhileStmt', 'CXXForRangeStmt'):
                inner = [x for x in walk(n.get('body') or {}) if x.get('k') in ('ForStmt', 'WhileStmt', 'CXXForRangeStmt')]
                has_str = any(x.get('fn') == 'simplecpp::Token::str' for x in walk(n))
                if has_str and not any(any(y.get('fn') == 'simplecpp::Token::str' for y in walk(i)) for i in inner):
                    loops.append((f, n))
    for i, (f, lp) in enumerate(loops):
        have = {x['n'].rsplit('::', 1)[1] for x in walk(lp) if x.get('k') == 'MemberExpr' and x.get('n', '').startswith('simplecpp::Location::')}
        ok = {'line', 'col'} <= have
        ctx.ob('R18.2', 'loop#%d' % i, ok,
               'token loop appends str() and %s' % (sorted(have) or 'no location'), '%s:%d' % (f['file'], lp['l']))
    ctx.floor('R18.2 token loops', len(loops), 1)
    # the result must pass through a hash function (std::hash) somewhere in the key functions
    hashed = any(x.get('k') == 'CXXOperatorCallExpr' and 'hash' in (x.get('fn') or '') for f, body in bodies for x in walk(body))
    ctx.ob('R18.2', 'std::hash', hashed, 'the accumulated token text is hashed by std::hash' if hashed else
           'no std::hash call found in the functions computing the key', where)

    # R18.6 the identity of every loaded file is part of the key
    names = any(a['n'] == 'simplecpp::FileData::filename' for f in K for a in f['acc'])
    ctx.ob('R18.6', 'file-identity', names, 'the key includes the name of every loaded file (a header without tokens still changes it)' if names else
           'the key covers only tokens: creating or removing a header that has no tokens (empty / comments only) leaves the key unchanged although '
           'missingInclude findings depend on it', where)

    # R18.5 sub-results are combined order- and multiplicity-sensitively
    comm = []
    for f, body in bodies:
        comm += [(f, n) for n in commutative_accumulations(body)]
    if not commutative_accumulations(_POSITIVE_EXAMPLE):
        raise AnalysisBroken('R18.5 self-test: the detector does not match its positive example')
    ctx.ob('R18.5', 'combination', not comm,
           'no commutative accumulation of integral sub-hashes (the token text of all files is concatenated / mixed in order)' if not comm else
           'sub-hashes are accumulated with a commutative operator at %s: the key does not change when two contributions swap (two headers exchange '
           'their contents) and, for xor, when two equal contributions are edited alike (they cancel)' %
           ', '.join('%s:%s (`%s`)' % (f['file'], n['l'], n.get('op')) for f, n in comm),
           '%s:%s' % ((comm[0][0]['file'], comm[0][1]['l']) if comm else (ph['file'], ph['line'])))

    # R18.7 (shared with C20 R20.6): re-opening a cache file keeps its stored findings
    from .C20 import r20_6
    r20_6(ctx, 'R18.7')
    r18_8(ctx)

    # R18.3
    ci = F.one('CppCheck::checkInternal')
    cbody = F.body(ci)['body']

    def gen(n):
        if n.get('k') == 'CXXMemberCallExpr' and n.get('fn') == 'Preprocessor::inlineSuppressions':
            return ('inline',)
        return ()

    def observe(n):
        return n.get('k') == 'CXXMemberCallExpr' and n.get('fn') == 'CppCheck::calculateHash'

    res = paths.analyse(cbody, gen=gen, observe=observe)
    sites = [(res.at_node[i], st) for i, st in res.at.items()]
    # the hash of the analysed source file is the call that passes the file path (2 written arguments)
    main_sites = [(n, st) for n, st in sites if len([a for a in n['c'][1:] if a.get('k') != 'DefaultArg']) >= 2]
    if not main_sites:
        raise AnalysisBroken('no calculateHash(preprocessor, path) call found in CppCheck::checkInternal')
    for i, (n, st) in enumerate(main_sites):
        ok = 'inline' in st
        ctx.ob('R18.3', 'order#%d' % i, ok,
               'calculateHash at line %d is %s by preprocessor.inlineSuppressions(...)' % (n['l'], 'dominated' if ok else 'NOT dominated'),
               '%s:%d' % (ci['file'], n['l']))
    ch = F.one('CppCheck::calculateHash')
    dumps = [c for c in ch['calls'] if c['f'].startswith('SuppressionList::dump(')]
    nomsg = any(a['n'] == 'Suppressions::nomsg' for a in ch['acc'])
    ctx.ob('R18.3', 'suppr-dump', bool(dumps) and nomsg,
           'CppCheck::calculateHash appends mSuppressions.nomsg.dump(...)' if dumps and nomsg else
           'CppCheck::calculateHash does not dump the active suppressions into the key', '%s:%d' % (ch['file'], ch['line']))

    # R18.4
    sk = F.one('AnalyzerInformation::skipAnalysis')
    sbody = F.body(sk)['body']

    def is_key(x):
        x = strip_all(x)
        if x is None:
            return False
        if x.get('k') == 'DeclRefExpr' and x.get('n') == 'hash':
            return True
        if x.get('fn') == 'std::to_string':
            return any(is_key(y) for y in x['c'][1:])
        if x.get('k') == 'CXXMemberCallExpr' and x.get('fn', '').endswith(('::c_str', '::data')):
            return is_key(x['c'][0]['c'][0])
        return False

    def is_hash_cmp(n):
        """attr ==/!= std::to_string(hash) (either order), value(attr) ==/!= hash, or strcmp(attr, key) ==/!= 0:
        a comparison of the *whole* key; anything that slices either side does not qualify."""
        if n.get('k') in ('CXXOperatorCallExpr', 'BinaryOperator') and n.get('op') in ('!=', '=='):
            ops = n['c'][1:] if n['k'] == 'CXXOperatorCallExpr' else n['c']
            if len(ops) != 2:
                return False
            if is_key(ops[0]) or is_key(ops[1]):
                return True
            for a, b in ((ops[0], ops[1]), (ops[1], ops[0])):
                a = strip_all(a)
                if a is not None and a.get('fn') in ('strcmp', 'std::strcmp') and strip(b).get('k') == 'IntegerLiteral' \
                        and any(is_key(y) for y in a['c'][1:]):
                    return True
        return False

    def cond(n, truth):
        if is_hash_cmp(n):
            eq = (n.get('op') == '==') == truth
            return ('hash-equal',) if eq else ('hash-differs',)
        return ()

    def is_accept(n):
        # return of an empty string == "skip analysis, cache is valid"
        if n.get('k') != 'ReturnStmt':
            return False
        lits = [x for x in walk(n) if x.get('k') == 'StringLiteral']
        return all(x.get('v') == '' for x in lits)

    res = paths.analyse(sbody, cond=cond, observe=lambda n: n.get('k') == 'ReturnStmt')
    accepts = [(k, n, st) for k, n, st in res.exits if k in ('return', 'end') and (k == 'end' or is_accept(n))]
    if not accepts:
        raise AnalysisBroken('AnalyzerInformation::skipAnalysis: no accepting (empty string) return found')
    cmps = [n for n in walk(sbody) if is_hash_cmp(n)]
    ctx.counts['R18.4 whole-key comparisons'] = len(cmps)
    for i, (k, n, st) in enumerate(accepts):
        ok = 'hash-equal' in st
        ctx.ob('R18.4', 'accept#%d' % i, ok,
               'accepting return at line %s is %s by attr == std::to_string(hash)' % (n.get('l'), 'dominated' if ok else 'NOT dominated'),
               '%s:%s' % (sk['file'], n.get('l')))


def r18_8(ctx):
    """R18.8  file-to-cache mapping: AnalyzerInformation::getAnalyzerInfoFileFromFilesTxt may return an entry from inside its loop only when the entry's path
    equals the looked-up path; a tail match (endsWith) may only provide the fallback that is returned after all entries were seen.  Otherwise two files
    whose paths are tails of one another ("main.c", "src/main.c") share one cache file and overwrite each other's results."""
    F = ctx.facts
    ctx.rule('R18.8', 'the files.txt lookup returns a tail match only when no entry has exactly the looked-up path')
    f = F.one('AnalyzerInformation::getAnalyzerInfoFileFromFilesTxt')
    body = F.body(f)['body']
    loop = next((x for x in walk(body) if x.get('k') in ('WhileStmt', 'ForStmt', 'CXXForRangeStmt')), None)
    if loop is None:
        raise AnalysisBroken('getAnalyzerInfoFileFromFilesTxt: loop over the entries not found')
    src_param = f['params'][1]['di'] if len(f.get('params', [])) > 1 else None

    def cond(n, truth):
        n0 = strip(n)
        if n0 is None:
            return ()
        if n0.get('k') == 'CXXOperatorCallExpr' and n0.get('op') in ('==', '!=') and any(y.get('di') == src_param for y in walk(n0)) and \
                any(y.get('k') == 'MemberExpr' and (y.get('n') or '').endswith('Info::sourceFile') for y in walk(n0)):
            return (('path-equal', (n0['op'] == '==') == truth),)
        return ()
    r = paths.analyse(body, cond=cond, observe=lambda n: n.get('k') == 'ReturnStmt')
    inner = [(n, st) for kind, n, st in r.exits if kind == 'return' and any(y is n for y in walk(loop))]
    tails = [x for x in walk(body) if x.get('k') == 'CallExpr' and x.get('fn') == 'endsWith']
    if not inner:
        ctx.ob('R18.8', 'exact-match-first', not tails, 'no return inside the loop' if not tails else
               'the lookup has no exact-match return inside its loop although it accepts tail matches', '%s:%d' % (f['file'], f['line']))
        return
    bad = [n for n, st in inner if ('path-equal', True) not in st]
    ctx.ob('R18.8', 'exact-match-first', not bad, 'an entry is returned from inside the loop only for an exact path match; a tail match is only the fallback' if not bad else
           'getAnalyzerInfoFileFromFilesTxt returns an entry at line %s without an exact path comparison (first tail match wins): `main.c` and `src/main.c` analysed together get the '
           'same cache file' % bad[0]['l'], '%s:%s' % (f['file'], bad[0]['l'] if bad else f['line']))
