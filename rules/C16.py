"""C16  The thread executor is free of data races (lock-set / effect formulation).

T = everything reachable in the call graph from the worker entry `threadProc` (virtual calls
fan out to all overriders; lambdas belong to the function that defines them).

R16.1  lock discipline: for every class with a std::mutex member, the fields it protects (table,
       re-derived on every run: the fields accessed under that lock) are accessed, in methods that
       are in T, only inside a lock_guard/unique_lock scope on that mutex, or in a private helper all
       of whose in-class call sites are inside such a scope; no method returns a reference or
       iterator-like handle to a protected field.
R16.2  every variable with static storage duration that code in T writes, mutates through a
       non-read-only method, or lets escape as non-const reference is const, std::atomic, a mutex,
       thread_local, or a standard stream object (R16.5 covers those).
R16.3  `mutable` data members written in T are mutexes/atomics.
R16.4  the shared Check singletons: the virtual entry points called on the registry instances
       (runChecks, getFileInfo, loadFileInfoFromXml, analyseWholeProgram, name) write no member of *this.
R16.5  the raw ErrorLogger handed to the executor is used by worker code only through SyncLogForwarder
       methods that hold mReportSync (or first call hasToLog, which has its own lock); the CppCheck
       objects built by the workers get the forwarder, not the raw logger.
R16.6  no call in T to libc functions with hidden static state.
"""
import collections
import re

from .common.facts import walk, walk_parents, strip, strip_all, call_args, children, AnalysisBroken

READONLY_METHODS = {'as_const', 'find', 'count', 'at', 'begin', 'end', 'cbegin', 'cend', 'size', 'empty', 'lower_bound', 'upper_bound',
                    'equal_range', 'front', 'back', 'data', 'c_str', 'length', 'rbegin', 'rend', 'crbegin', 'crend',
                    'get', 'load', 'contains', 'max_size', 'capacity', 'key_comp', 'value_comp', 'str', 'operator bool',
                    'operator->', 'operator*', 'compare', 'substr', 'find_first_of', 'find_last_of', 'rfind', 'is_open',
                    'good', 'eof', 'fail', 'bad'}
STREAM_GLOBALS = {'std::cout', 'std::cerr', 'std::clog', 'std::cin'}
MT_UNSAFE = {'strtok', 'localtime', 'gmtime', 'asctime', 'ctime', 'rand', 'srand', 'setlocale', 'strerror', 'getenv_unsafe',
             'readdir', 'tmpnam', 'getpwnam', 'getpwuid', 'gethostbyname', 'ttyname', 'std::strtok', 'std::localtime',
             'std::gmtime', 'std::asctime', 'std::ctime', 'std::rand', 'std::srand', 'std::setlocale', 'std::strerror',
             'std::tmpnam', 'putenv', 'setenv', 'unsetenv'}
LOCK_TYPES = ('lock_guard', 'unique_lock', 'scoped_lock')
SINGLETON_ENTRIES = ['Check::runChecks', 'Check::getFileInfo', 'Check::loadFileInfoFromXml', 'Check::analyseWholeProgram',
                     'Check::name', 'Check::getErrorMessages', 'Check::classInfo']


def is_sync_type(t):
    t = t or ''
    return 'std::mutex' in t or 'std::atomic' in t or 'std::recursive_mutex' in t or 'std::once_flag' in t or 'std::condition_variable' in t


def locked_node_ids(body, mutex_name):
    """ids of all nodes evaluated while a lock object on `mutex_name` declared in an enclosing block is alive."""
    locked = set()

    def is_lock_decl(st):
        if st.get('k') != 'DeclStmt':
            return False
        for d in st.get('decls', ()):
            if any(t in (d.get('t') or '') for t in LOCK_TYPES) and d.get('init') is not None:
                for y in walk(d['init']):
                    if y.get('k') == 'MemberExpr' and y.get('n') == mutex_name:
                        return True
        return False

    def visit(n, held):
        if n is None:
            return
        if held:
            locked.add(id(n))
        if n.get('k') == 'CompoundStmt':
            h = held
            for c in n.get('c', ()):
                visit(c, h)
                if is_lock_decl(c):
                    h = True
            return
        for c in children(n):
            visit(c, held)

    visit(body, False)
    return locked


def run(ctx):
    F = ctx.facts
    for rid, txt in [('R16.1', 'fields protected by a class mutex are accessed only under that mutex in worker-reachable methods'),
                     ('R16.2', 'static-storage variables mutated by worker-reachable code are const/atomic/mutex/thread_local'),
                     ('R16.3', 'mutable members written by worker-reachable code are synchronisation objects'),
                     ('R16.4', 'entry points of the shared Check singletons do not write *this'),
                     ('R16.5', 'the raw logger is reached only through the locking forwarder'),
                     ('R16.6', 'no MT-unsafe libc function is called from worker-reachable code')]:
        ctx.rule(rid, txt)
    tp = F.one('threadProc')
    # classes that exist only in the forked worker of the *process* executor cannot be the dynamic type behind a
    # virtual call made by a worker thread; verified: every construction site is inside ProcessExecutor
    only_process = {}
    for cls in ('PipeWriter',):
        sites = [f for f in F.all_fns() if any(c.get('kd') == 'ctor' and c['f'].startswith(cls + '::' + cls + '(') for c in f['calls'])]
        if sites and all(f.get('cls') == 'ProcessExecutor' or f.get('cls') == cls for f in sites):
            only_process[cls] = [f['name'] for f in sites]
        elif sites:
            ctx.note('%s is also constructed outside ProcessExecutor (%s): kept in T' % (cls, sites[0]['name']))
    T = F.reachable([tp], stop=None if not only_process else (lambda f: False))
    if only_process:
        T = {k: v for k, v in F.reachable([tp], stop=lambda f: f.get('cls') in only_process).items() if v[0].get('cls') not in only_process}
        ctx.note('excluded from T (constructed only in the process executor): %s' % sorted(only_process))
    ctx.floor('functions reachable from threadProc', len(T), 3000)
    inT = set(T)

    # ---------------------------------------------------------------- R16.2 statics
    vars_seen = 0
    by_var = collections.defaultdict(list)
    for k, (f, _, _) in T.items():
        for a in f['acc']:
            if not a.get('g'):
                continue
            by_var[a['n']].append((f, a))
    for name, uses in sorted(by_var.items()):
        decls = F.vars.get(name, [])
        d = decls[0] if decls else {}
        vars_seen += 1
        t = d.get('type') or ''
        safe_decl = d.get('const') or d.get('tls') or is_sync_type(t)
        bad = []
        for f, a in uses:
            ak = a['a']
            if ak in ('r', 'o'):
                continue
            if ak == 'a':
                # address / array decay of a non-const object: only a problem if the object is not const
                if safe_decl or not decls:
                    continue
                bad.append((f, a))
                continue
            if ak.startswith('m:') and ak[2:] in READONLY_METHODS:
                continue
            bad.append((f, a))
        if name in STREAM_GLOBALS or name.startswith('std::'):
            continue   # standard library objects: R16.5 (streams) / not program state
        if not bad:
            ctx.ob('R16.2', 'static:%s' % name, True, 'static %s (%s) is only read by worker-reachable code' % (name, t or '?'),
                   '%s:%s' % (d.get('file', '?'), d.get('line', '?')))
            continue
        f, a = bad[0]
        ok = bool(safe_decl)
        ctx.ob('R16.2', 'static:%s' % name, ok,
               ('static %s is mutated in T but is %s' % (name, 'thread_local' if d.get('tls') else 'const/atomic/mutex')) if ok else
               ('static-storage variable %s (%s) is modified (%s) by %s, which worker threads reach via %s, without being '
                'atomic, const, a mutex or thread_local' % (name, t, a['a'], f['name'], ' -> '.join(F.chain(T, F.key(f))[-4:]))),
               '%s:%s' % (f['file'], a['l']), {'chain': F.chain(T, F.key(f))})
    ctx.floor('static-storage variables referenced from T', vars_seen, 25)

    # ---------------------------------------------------------------- R16.3 mutable members
    mutable = {}
    for r in F.recs.values():
        for fld in r['fields']:
            if fld.get('mutable'):
                mutable[r['name'] + '::' + fld['n']] = (r, fld)
    ctx.counts['mutable_members_in_program'] = len(mutable)
    mw = collections.defaultdict(list)
    for k, (f, _, _) in T.items():
        for a in f['acc']:
            if a['n'] in mutable and a['a'] not in ('r', 'o') and not (a['a'].startswith('m:') and a['a'][2:] in READONLY_METHODS):
                mw[a['n']].append((f, a))
    # classes of objects that several workers can reach: closure over field types starting from the worker's context
    roots = ['ThreadData', 'ThreadExecutor', 'Executor']
    shared = set()
    work = list(roots)
    names = sorted(F.recs, key=len, reverse=True)
    tok = re.compile(r'[A-Za-z_][A-Za-z_0-9:]*')
    while work:
        c = work.pop()
        if c in shared:
            continue
        shared.add(c)
        r0 = F.recs.get(c)
        if not r0:
            continue
        for b in r0['bases']:
            work.append(b)
        for fl in r0['fields']:
            t_ = fl['t']
            for m_ in tok.finditer(t_):
                w_ = m_.group(0)
                rest = t_[m_.end():].lstrip()
                if rest.startswith('*') or rest.startswith('const *') or rest.startswith('> *'):
                    continue    # raw pointer: not owned (per-file objects such as Token are referenced this way)
                if w_ in F.recs and w_ not in shared:
                    work.append(w_)
                # nested types are written relative to the class
                if c + '::' + w_ in F.recs:
                    work.append(c + '::' + w_)
    # nested records of shared classes (Library::Container, ...) are shared too
    for n in list(F.recs):
        if any(n.startswith(s_ + '::') for s_ in shared):
            shared.add(n)
    ctx.counts['classes_of_objects_shared_between_workers'] = len(shared)
    # objects that are created per translation unit inside the worker (owned by one thread)
    PER_THREAD_OWNER = {
        'SymbolDatabase': 'one SymbolDatabase per Tokenizer, created inside CppCheck::checkFile by the worker that uses it',
        'Token': 'tokens belong to the TokenList of the file the worker is analysing',
        'TokenImpl': 'same as Token',
        'Variable': 'symbol database objects of the file being analysed',
        'Scope': 'symbol database objects of the file being analysed',
        'Function': 'symbol database objects of the file being analysed',
        'ValueType': 'symbol database objects of the file being analysed',
        'Type': 'symbol database objects of the file being analysed',
    }
    for name, (r, fld) in sorted(mutable.items()):
        uses = mw.get(name, [])
        where = '%s:%s' % (r['file'], fld['l'])
        if is_sync_type(fld['t']):
            ctx.ob('R16.3', 'mutable:%s' % name, True, 'mutable member %s is a synchronisation object' % name, where)
            continue
        if not uses:
            ctx.ob('R16.3', 'mutable:%s' % name, True, 'mutable member %s is not written by worker-reachable code' % name, where)
            continue
        owner = r['name'].split('::')[0]
        if r['name'] not in shared:
            ctx.ob('R16.3', 'mutable:%s' % name, True, 'mutable member %s: class %s is not reachable through the fields of the objects '
                   'shared between workers (ThreadData/Settings/Library/Suppressions/...)' % (name, r['name']), where)
            continue
        if r['name'] in PER_THREAD_OWNER or owner in PER_THREAD_OWNER:
            ctx.ob('R16.3', 'mutable:%s' % name, True, 'mutable member %s belongs to per-file analysis objects (%s)'
                   % (name, PER_THREAD_OWNER.get(r['name']) or PER_THREAD_OWNER.get(owner)), where)
            continue
        f, a = uses[0]
        ctx.ob('R16.3', 'mutable:%s' % name, False,
               'mutable member %s (%s) of a class that is not per-file state is written by %s (reachable from threadProc via %s): '
               'const access paths from shared Settings/Library objects can reach it concurrently'
               % (name, fld['t'], f['name'], ' -> '.join(F.chain(T, F.key(f))[-4:])), '%s:%s' % (f['file'], a['l']))

    # ---------------------------------------------------------------- R16.7 const access paths
    ctx.rule('R16.7', 'shared objects are reached by workers through const paths only: no const_cast to a shared class in T, and no '
                      'const method of a shared class (in T) writes through a pointer/unique_ptr member (shallow constness)')
    ncc = 0
    for k, (f, _, _) in sorted(T.items()):
        if not f['file'].startswith(('lib/', 'cli/')):
            continue
        b = None
        is_const_shared = f.get('const') and f.get('cls') in shared and F.recs.get(f['cls']) and \
            not any('std::mutex' in x['t'] for x in F.recs[f['cls']]['fields'])
        interesting = is_const_shared and any(a['a'] not in ('r', 'o') and not (a['a'].startswith('m:') and a['a'][2:] in READONLY_METHODS)
                                              and not a.get('g') for a in f['acc'])
        has_cast = any(True for c in f['calls'] if False)
        b = F.body(f)
        if b is None:
            continue
        for x, parents in walk_parents(b['body']):
            kx = x.get('k')
            if kx == 'CXXConstCastExpr':
                tw = (x.get('tw') or '')
                cls_hit = [c for c in shared if re.search(r'(^|[^A-Za-z_:])' + re.escape(c) + r'\b', tw)]
                cls_hit = [c for c in cls_hit if c in ('Settings', 'Library', 'Platform', 'Suppressions', 'SuppressionList', 'FileWithDetails', 'FileSettings', 'Standards')]
                if cls_hit:
                    ncc += 1
                    ctx.ob('R16.7', 'constcast:%s' % f['name'], False,
                           '%s (reachable from threadProc) casts away const to %s: workers share this object' % (f['name'], tw),
                           '%s:%s' % (f['file'], x['l']))
            if interesting and kx == 'MemberExpr' and x.get('dk') == 'Field' and x.get('a') not in (None, 'r', 'o', 'e:as_const') and \
                    not (x['a'].startswith('m:') and x['a'][2:] in READONLY_METHODS):
                # does the base chain go through this->ptr-> ?
                y = x
                through_ptr = False
                rooted_this = False
                while y is not None:
                    if y.get('k') == 'MemberExpr':
                        if y.get('arrow') and y is not x or (y is x and y.get('arrow') and not y.get('this')):
                            through_ptr = True
                        if y.get('this'):
                            rooted_this = True
                            break
                        y = strip(y['c'][0]) if y.get('c') else None
                    elif y.get('k') == 'CXXOperatorCallExpr' and y.get('op') in ('->', '*'):
                        through_ptr = True
                        y = strip(y['c'][1]) if len(y.get('c', ())) > 1 else None
                    elif y.get('k') in ('ImplicitCastExpr', 'CXXMemberCallExpr', 'UnaryOperator', 'ArraySubscriptExpr'):
                        if y.get('k') == 'CXXMemberCallExpr' and (y.get('fn') or '').endswith('::get'):
                            through_ptr = True
                        y = strip(y['c'][0]) if y.get('c') else None
                        if y is not None and y.get('k') == 'MemberExpr' and y.get('dk') == 'CXXMethod':
                            y = strip(y['c'][0]) if y.get('c') else None
                    else:
                        break
                if through_ptr and rooted_this:
                    ctx.ob('R16.7', 'pimplwrite:%s:%s' % (f['name'], x['n']), False,
                           'const method %s of shared class %s writes %s (%s) through a pointer member: constness is shallow, '
                           'two workers can execute this concurrently on the shared object' % (f['name'], f['cls'], x['n'], x['a']),
                           '%s:%s' % (f['file'], x['l']))
    ctx.ob('R16.7', 'census', True, 'const_cast / pimpl-write census over %d functions of T' % len(T), 'T')

    # ---------------------------------------------------------------- R16.1 lock discipline
    nclasses = 0
    for r in sorted(F.rec_list, key=lambda r: (r['name'], r['file'])):
        mutexes = [fld for fld in r['fields'] if 'std::mutex' in fld['t'] or 'std::recursive_mutex' in fld['t']]
        if not mutexes or not r['file'].startswith(('lib/', 'cli/')):
            continue
        cls = r['name']
        stem = r['file'].rsplit('.', 1)[0]
        methods = [f for f in F.all_fns() if f.get('cls') == cls and f['file'].rsplit('.', 1)[0] == stem]
        if not methods:
            continue
        nclasses += 1
        for mx in mutexes:
            mname = cls + '::' + mx['n']
            # pass 1: which fields are accessed under the lock somewhere (= protected set)
            per_method = {}
            protected = collections.Counter()
            written_locked = collections.Counter()   # contradiction rule: a field some method modifies under the lock is meant to be protected by it
            for f in methods:
                b = F.body(f)
                if b is None:
                    continue
                locked = locked_node_ids(b['body'], mname)
                acc = []
                for x in walk(b['body']):
                    if x.get('k') == 'MemberExpr' and x.get('dk') == 'Field' and x.get('n', '').startswith(cls + '::') and x.get('n') != mname:
                        base = strip(x['c'][0]) if x.get('c') else None
                        if base is not None and base.get('k') == 'CXXThisExpr' or x.get('this'):
                            acc.append((x, id(x) in locked))
                            if id(x) in locked:
                                protected[x['n']] += 1
                                ak = x.get('a') or 'r'
                                if not (f.get('ctor') or f.get('dtor')) and ak not in ('r', 'o') and not (ak.startswith('m:') and ak[2:] in READONLY_METHODS) and ak != 'e:as_const':
                                    written_locked[x['n']] += 1
                calls = []
                for x in walk(b['body']):
                    if x.get('k') == 'CXXMemberCallExpr' and x.get('fid'):
                        callee = x['c'][0]
                        base = strip(callee['c'][0]) if callee.get('c') else None
                        if base is not None and base.get('k') == 'CXXThisExpr':
                            calls.append((x, id(x) in locked))
                per_method[F.key(f)] = (f, acc, calls, locked)
            fields_meta = {cls + '::' + fl['n']: fl for fl in r['fields']}
            prot = set()
            total = collections.Counter()
            for fk_, (f_, acc_, _c, _l) in per_method.items():
                if f_.get('ctor') or f_.get('dtor'):
                    continue
                for x_, lk_ in acc_:
                    total[x_['n']] += 1
            for n in protected:
                fl = fields_meta.get(n, {})
                if fl.get('const') or fl.get('ref') or is_sync_type(fl.get('t')):
                    continue
                ft = (fl.get('t') or '').replace('const ', '').strip()
                fr = F.recs.get(ft)
                if fr and any('std::mutex' in x['t'] for x in fr['fields']):
                    continue     # member object with its own mutex
                if protected[n] * 2 <= total[n] and not written_locked[n]:
                    continue     # mostly accessed without the lock and never modified under it: not a field this mutex is meant to protect
                prot.add(n)
            ctx.note('%s protects %s' % (mname, sorted(x.split('::')[-1] for x in prot)))
            if not prot:
                continue
            # helpers whose every in-class call site is under the lock
            def always_called_locked(fk, seen=()):
                f = per_method[fk][0]
                sites = []
                for gk, (g, acc, calls, locked) in per_method.items():
                    for x, lk in calls:
                        if x.get('fid') == f['id']:
                            sites.append((gk, lk))
                if not sites:
                    return False
                for gk, lk in sites:
                    if lk:
                        continue
                    if gk in seen or gk == fk:
                        return False
                    if not always_called_locked(gk, seen + (fk,)):
                        return False
                return True

            for fk, (f, acc, calls, locked) in sorted(per_method.items()):
                if f.get('ctor') or f.get('dtor'):
                    continue
                unl = [x for x, lk in acc if not lk and x['n'] in prot]
                key = 'lock:%s:%s' % (mname, f['name'].split('::')[-1] + ('#%d' % len(f['params'])))
                where = '%s:%d' % (f['file'], f['line'])
                if fk not in inT:
                    if unl:
                        ctx.note('%s accesses %s without %s but is not reachable from threadProc' % (f['name'], unl[0]['n'], mname))
                    continue
                # returning a reference to protected state
                ret_ref = f['ret'].rstrip().endswith('&') or 'iterator' in f['ret']
                b = F.body(f)
                escapes = []
                if ret_ref and b is not None:
                    for x in walk(b['body']):
                        if x.get('k') == 'ReturnStmt':
                            for y in walk(x):
                                if y.get('k') == 'MemberExpr' and y.get('n') in prot:
                                    escapes.append(y)
                if escapes:
                    ctx.ob('R16.1', key + ':escape', False,
                           '%s returns a reference (%s) to %s, which is protected by %s: callers in worker threads read it after the '
                           'lock is released' % (f['name'], f['ret'], escapes[0]['n'], mname), '%s:%s' % (f['file'], escapes[0]['l']))
                # pointers / references to protected state created under the lock and stored in something that
                # outlives the lock scope (elements of a protected container referenced from an outer variable)
                if b is not None:
                    byref_vars = {}
                    for x in walk(b['body']):
                        if x.get('k') == 'CXXForRangeStmt' and x.get('var') and x.get('range') is not None:
                            rng = strip(x['range'])
                            if any(y.get('k') == 'MemberExpr' and y.get('n') in prot for y in walk(rng)) and \
                                    (x['var'].get('t') or '').rstrip().endswith('&'):
                                byref_vars[x['var']['di']] = x
                    # declarations made while the lock is held
                    inner_decls = {x['di'] for x in walk(b['body']) if x.get('k') == 'VarDecl' and id(x) in locked and x.get('di')}
                    for x, parents in walk_parents(b['body']):
                        if id(x) not in locked or x.get('k') != 'UnaryOperator' or x.get('op') != '&':
                            continue
                        opnd = strip(x['c'][0])
                        src = None
                        if opnd.get('k') == 'DeclRefExpr' and opnd.get('di') in byref_vars:
                            src = 'an element of %s (loop variable %s)' % ([y['n'] for y in walk(strip(byref_vars[opnd['di']]['range'])) if y.get('k') == 'MemberExpr' and y.get('n') in prot][0], opnd.get('n'))
                        elif opnd.get('k') == 'MemberExpr' and opnd.get('n') in prot:
                            src = opnd['n']
                        if not src:
                            continue
                        # where does the pointer go?  argument of a method call on / assignment to a variable declared outside the lock scope
                        dest = None
                        for pnode in reversed(parents):
                            pk = pnode.get('k')
                            if pk in ('CXXMemberCallExpr',) and pnode.get('c'):
                                callee = pnode['c'][0]
                                obj = strip(callee['c'][0]) if callee.get('c') else None
                                if obj is not None and obj.get('k') == 'DeclRefExpr' and obj.get('di') and obj['di'] not in inner_decls:
                                    dest = obj.get('n')
                                break
                            if pk in ('BinaryOperator', 'CXXOperatorCallExpr') and pnode.get('op') == '=':
                                lhs = strip(pnode['c'][0] if pk == 'BinaryOperator' else pnode['c'][1])
                                if lhs.get('k') == 'DeclRefExpr' and lhs.get('di') not in inner_decls:
                                    dest = lhs.get('n')
                                elif lhs.get('k') == 'MemberExpr':
                                    dest = lhs.get('n')
                                break
                            if pk in ('ReturnStmt',):
                                dest = 'the return value'
                                break
                            if pk in ('CompoundStmt', 'DeclStmt'):
                                break
                        if dest:
                            ctx.ob('R16.1', key + ':ptr-escape', False,
                                   '%s stores the address of %s in %s while holding %s; the pointer is used after the lock is released '
                                   'while other workers modify the protected object' % (f['name'], src, dest, mname),
                                   '%s:%s' % (f['file'], x['l']))
                if not unl:
                    ctx.ob('R16.1', key, True, '%s accesses the fields protected by %s only under the lock' % (f['name'], mname), where)
                    continue
                if always_called_locked(fk):
                    ctx.ob('R16.1', key, True, '%s is a helper whose every call site holds %s' % (f['name'], mname), where)
                    continue
                x = unl[0]
                ctx.ob('R16.1', key, False,
                       '%s accesses %s at line %s without holding %s (the other methods access it under that lock); the method is '
                       'reachable from threadProc via %s' % (f['name'], x['n'], x['l'], mname, ' -> '.join(F.chain(T, fk)[-4:])),
                       '%s:%s' % (f['file'], x['l']))
    ctx.floor('classes with a mutex member', nclasses, 5)

    # ---------------------------------------------------------------- R16.4 Check singletons
    nent = 0
    chk_rec = F.recs.get('Check')
    if not chk_rec:
        raise AnalysisBroken('class Check not found')
    for mth in chk_rec['methods']:
        if not mth.get('virt') or 'Check::' + mth['n'] not in SINGLETON_ENTRIES:
            continue
        base = 'Check::' + mth['n']
        for b in [mth]:
            for f in F.fns.get(mth['id'], []) + F.overriders(mth['id']):
                if F.key(f) not in inT and base not in ('Check::getErrorMessages', 'Check::classInfo'):
                    pass
                writes = [a for a in f['acc'] if a.get('th') and a['a'] not in ('r', 'o') and
                          not (a['a'].startswith('m:') and a['a'][2:] in READONLY_METHODS)]
                nent += 1
                key = 'singleton:%s' % f['name']
                if f.get('ctor'):
                    continue
                ctx.ob('R16.4', key, not writes,
                       ('%s does not write members of the shared checker instance' % f['name']) if not writes else
                       ('%s is called on the shared registry instance by every worker and writes %s (%s)'
                        % (f['name'], writes[0]['n'], writes[0]['a'])), '%s:%d' % (f['file'], writes[0]['l'] if writes else f['line']))
    ctx.floor('Check singleton entry points', nent, 60)

    # ---------------------------------------------------------------- R16.5 raw logger
    slf = F.recs.get('SyncLogForwarder')
    if not slf:
        raise AnalysisBroken('class SyncLogForwarder not found')
    for f in [f for f in F.all_fns() if f.get('cls') == 'SyncLogForwarder' and not f.get('ctor')]:
        b = F.body(f)
        locked = locked_node_ids(b['body'], 'SyncLogForwarder::mReportSync')
        for x in walk(b['body']):
            if x.get('k') == 'CXXMemberCallExpr':
                callee = x['c'][0]
                base = strip(callee['c'][0]) if callee.get('c') else None
                if base is not None and base.get('k') == 'MemberExpr' and base.get('n') in ('SyncLogForwarder::mErrorLogger', 'SyncLogForwarder::mThreadExecutor'):
                    tgt = x.get('fn', '')
                    ok = id(x) in locked or tgt.endswith('::hasToLog')
                    ctx.ob('R16.5', 'forward:%s->%s' % (f['name'].split('::')[-1], tgt.split('::')[-1]), ok,
                           ('%s calls %s %s' % (f['name'], tgt, 'under mReportSync' if id(x) in locked else '(self-locking)')) if ok else
                           ('%s forwards to %s without holding mReportSync: output of two workers can interleave / the wrapped logger '
                            'is entered concurrently' % (f['name'], tgt)), '%s:%s' % (f['file'], x['l']))
    # who may call the functions that use the executor's raw logger: in worker code only the forwarder (whose calls are checked above)
    rawfns = {}
    for f in F.all_fns():
        if any(a['n'] == 'Executor::mErrorLogger' for a in f['acc']):
            rawfns[f['id']] = f
    if not rawfns:
        raise AnalysisBroken('no function uses Executor::mErrorLogger')
    nraw = 0
    for k, (f, _, _) in T.items():
        if f['id'] in rawfns:
            continue
        for c in f['calls']:
            for g in [h for h in rawfns.values() if h['id'] == c['f']]:
                nraw += 1
                ok = f.get('cls') == 'SyncLogForwarder'
                ctx.ob('R16.5', 'raw-logger-caller:%s->%s' % (f['name'], g['name'].split('::')[-1]), ok,
                       ('%s (the locking forwarder) calls %s' % (f['name'], g['name'])) if ok else
                       ('%s runs in the worker threads and calls %s, which writes to the executor\'s raw ErrorLogger, without going through SyncLogForwarder (mReportSync): the wrapped logger '
                        'is entered by two threads at once' % (f['name'], g['name'])), '%s:%s' % (f['file'], c['l']))
    ctx.floor('R16.5 worker-side callers of raw-logger functions', nraw, 1)
    # the workers' CppCheck gets the forwarder
    chk = [f for f in F.find('ThreadData::check')]
    if len(chk) != 1:
        raise AnalysisBroken('ThreadData::check not found')
    b = F.body(chk[0])
    found = False
    for x in walk(b['body']):
        if x.get('k') in ('CXXConstructExpr', 'CXXTemporaryObjectExpr') and x.get('cls') == 'CppCheck':
            found = True
            args = call_args(x)
            names = []
            for a in args[:4]:
                a0 = strip(a)
                while a0 is not None and a0.get('k') not in ('MemberExpr', 'DeclRefExpr') and a0.get('c'):
                    a0 = strip(a0['c'][0])
                names.append(a0.get('n') if a0 else None)
            ok = 'ThreadData::mLogForwarder' in names
            ctx.ob('R16.5', 'worker-logger', ok,
                   'worker CppCheck objects are constructed with the locking forwarder' if ok else
                   'worker CppCheck objects are constructed with %s instead of ThreadData::mLogForwarder' % names,
                   '%s:%s' % (chk[0]['file'], x['l']))
    if not found:
        raise AnalysisBroken('no CppCheck construction in ThreadData::check')
    # ThreadData keeps no raw logger field
    td = F.recs.get('ThreadData')
    raw = [fl for fl in td['fields'] if fl['t'].replace('const ', '').startswith('ErrorLogger')]
    ctx.ob('R16.5', 'threaddata-raw-logger', not raw, 'ThreadData stores no raw ErrorLogger' if not raw else
           'ThreadData stores a raw ErrorLogger (%s) that worker code can call without the lock' % raw[0]['n'],
           '%s:%s' % (td['file'], td['line']))

    # ---------------------------------------------------------------- R16.6 MT-unsafe libc
    hits = collections.defaultdict(list)
    for k, (f, _, _) in T.items():
        for c in f['calls']:
            name = c['f'].split('(')[0]
            if name in MT_UNSAFE:
                hits[name].append((f, c))
    for name in sorted(MT_UNSAFE):
        if name in hits:
            f, c = hits[name][0]
            ctx.ob('R16.6', 'libc:%s' % name, False,
                   '%s (hidden static state, MT-Unsafe in glibc) is called by %s, reachable from threadProc via %s'
                   % (name, f['name'], ' -> '.join(F.chain(T, F.key(f))[-4:])), '%s:%s' % (f['file'], c['l']))
    ctx.ob('R16.6', 'libc-census', True, '%d MT-unsafe libc names checked against %d functions in T' % (len(MT_UNSAFE), len(T)), 'T')
