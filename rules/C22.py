"""C22  Whole-program results do not depend on how summaries are stored.

Decides: for every summary kind, what the writer emits is what the reader accepts and restores
(same element names, same attribute names, every field of the summary structs written and
restored), the container keys agree, and both whole-program drivers run the same analyses.

R22.1  element names written by the writer  ==  element names the reader dispatches on (per pair)
R22.2  per element: attributes read by the reader  subset-of  attributes written, and vice versa
R22.3  every data member of the serialized structs is read in the writer closure and written in
       the reader closure
R22.4  both drivers (in-memory / build-dir) iterate the check registry calling analyseWholeProgram
       and run the unused-function check under the same Checks::unusedFunction test
R22.5  the <FileInfo check="KEY"> keys written by the analysis are the keys the build-dir driver
       dispatches on
"""
import re
from .common.facts import walk, strip, strip_all, call_args, AnalysisBroken
from .common import xmlmodel


def closure(F, roots, pred):
    seen = {}
    work = list(roots)
    for r in roots:
        seen[F.key(r)] = r
    while work:
        f = work.pop()
        for g, c in F.callees(f):
            if F.key(g) in seen or not pred(g):
                continue
            seen[F.key(g)] = g
            work.append(g)
    return list(seen.values())


def is_repo(g):
    return g['file'].startswith(('lib/', 'cli/'))


def run(ctx):
    F = ctx.facts
    r22_7(ctx)
    r22_8(ctx)
    ctx.rule('R22.1', 'element names written == element names dispatched by the reader, per summary kind')
    ctx.rule('R22.2', 'per element, attribute names read == attribute names written')
    ctx.rule('R22.3', 'every data member of a serialized summary struct is read by the writer and assigned by the reader')
    ctx.rule('R22.4', 'in-memory and build-dir whole-program drivers run the same analyses')
    ctx.rule('R22.5', 'container keys (<FileInfo check=...>) written == keys dispatched')

    W = xmlmodel.Writer(F)
    R = xmlmodel.Reader(F)

    # ---- discover pairs --------------------------------------------------------------------------
    pairs = []   # (name, writer fn, reader fn)
    base_load = 'Check::loadFileInfoFromXml(const tinyxml2::XMLElement *) const'
    loaders = [f for f in F.overriders(base_load)]
    for ld in sorted(loaders, key=lambda f: f['name']):
        # the FileInfo class of the same unit that overrides Check::FileInfo::toString
        ws = [f for f in F.overriders('Check::FileInfo::toString() const') if f['unit'] == ld['unit'] and f['file'] == ld['file']]
        if len(ws) != 1:
            raise AnalysisBroken('%s: expected one Check::FileInfo::toString override in %s, found %d' % (ld['name'], ld['file'], len(ws)))
        pairs.append((ld['cls'], ws[0], ld))
    pairs.append(('ctu', F.one('CTU::FileInfo::toString'), F.one('CTU::FileInfo::loadFromXml')))
    pairs.append(('unsafe-usage', F.one('CTU::toString'), F.one('CTU::loadUnsafeUsageListFromXml')))
    pairs.append(('CheckUnusedFunctions', F.one('CheckUnusedFunctions::analyzerInfo'),
                  F.one('CheckUnusedFunctions::analyseWholeProgram', nparams=3)))
    ctx.floor('R22 writer/reader pairs', len(pairs), 7)

    structs = set()
    for name, wfn, rfn in pairs:
        parts = W.parts_of_function(wfn)
        els = xmlmodel.parse_markup(parts)
        wm = xmlmodel.merge_elements(els)
        rm = R.model(rfn)
        where = '%s:%d / %s:%d' % (wfn['file'], wfn['line'], rfn['file'], rfn['line'])
        wtags, rtags = set(wm), set(rm['tags'])
        if not wtags:
            raise AnalysisBroken('%s: writer model of %s found no element' % (name, wfn['name']))
        # R22.1
        for t in sorted(wtags | rtags):
            if t in wtags and t in rtags:
                ctx.ob('R22.1', 'tag:%s:%s' % (name, t), True, '<%s> is written by %s and dispatched by %s' % (t, wfn['name'], rfn['name']), where)
            elif t in rtags:
                ctx.ob('R22.1', 'tag:%s:%s' % (name, t), False,
                       'reader %s dispatches on <%s> but writer %s never writes that element (it writes %s): '
                       'the records meant for this branch are lost or mis-parsed when summaries go through the build dir'
                       % (rfn['name'], t, wfn['name'], sorted(wtags)), where)
            else:
                # written but not dispatched: fine only if the reader reads this element without name test
                # (single-kind lists) -> the reader must at least read one of its attributes outside scopes
                attrs = set(wm[t]['attrs'])
                implicit = bool(attrs) and attrs <= rm['outside'] | set().union(*rm['tags'].values()) if rm['tags'] else attrs <= rm['outside']
                wrapper = not attrs
                ok = implicit and not rtags or wrapper and False
                if not rtags and attrs and attrs <= rm['outside']:
                    ok = True
                ctx.ob('R22.1', 'tag:%s:%s' % (name, t), ok,
                       ('<%s> is written and read without a name test (only kind of child)' % t) if ok else
                       'writer %s writes <%s> but reader %s never dispatches on that element name (it knows %s)'
                       % (wfn['name'], t, rfn['name'], sorted(rtags)), where)
        # R22.2
        for t in sorted(wtags & rtags):
            wa = set(wm[t]['attrs'])
            ra = set(rm['tags'][t])
            # reads made before the dispatch apply to every tag of that reader
            ra_all = ra | rm['outside']
            for a in sorted(wa | ra):
                if a in wa and a in ra_all:
                    ok, what = True, '<%s %s> written and read' % (t, a)
                elif a in ra:
                    ok, what = False, ('reader %s reads attribute %s of <%s>, which writer %s never writes (writes %s)'
                                       % (rfn['name'], a, t, wfn['name'], sorted(wa)))
                else:
                    ok, what = False, ('writer %s writes attribute %s of <%s>, which reader %s never reads (reads %s): '
                                       'the value is dropped by the build-dir round trip' % (wfn['name'], a, t, rfn['name'], sorted(ra_all)))
                ctx.ob('R22.2', 'attr:%s:%s:%s' % (name, t, a), ok, what, where)
        if not rtags:
            # untagged reader: compare its reads with the attributes of the single written element
            for t in wtags:
                wa = set(wm[t]['attrs'])
                for a in sorted(wa | rm['outside']):
                    ok = a in wa and a in rm['outside']
                    ctx.ob('R22.2', 'attr:%s:%s:%s' % (name, t, a), ok,
                           ('<%s %s> written and read' % (t, a)) if ok else
                           ('attribute %s of <%s>: written=%s read=%s' % (a, t, a in wa, a in rm['outside'])), where)

        # R22.3 struct fields
        wcl = closure(F, [wfn], lambda g: is_repo(g) and W.is_writer(g))
        rcl = closure(F, [rfn], lambda g: is_repo(g) and (any(p['t'].startswith(('const tinyxml2::XMLElement *', 'tinyxml2::XMLElement *')) for p in g['params']) or g.get('ctor')))
        wreads = {a['n'] for f in wcl for a in f['acc']}
        rwrites = {a['n'] for f in rcl for a in f['acc'] if a['a'] != 'r'}
        # ctor-init of the record in reader closure counts as assignment (Location(file,line,col) in unused functions)
        for f in rcl:
            if f.get('ctor'):
                b = F.body(f)
                for i in (b or {}).get('inits', ()):
                    if i.get('field'):
                        rwrites.add(i['field'])
        # structs = records whose fields the writer reads and that are summary records
        cand = set()
        for n in wreads:
            cls = n.rsplit('::', 1)[0]
            r = F.recs.get(cls)
            if r and (cls.startswith('CTU::FileInfo::') or cls.endswith('NameLoc') or cls.endswith('FunctionDecl')):
                cand.add(cls)
                for b in F.bases(cls):
                    if b.startswith('CTU::FileInfo::'):
                        cand.add(b)
        for cls in sorted(cand):
            structs.add(cls)
            rec = F.recs[cls]
            for fld in rec['fields']:
                if fld.get('static'):
                    continue
                q = cls + '::' + fld['n']
                sub = F.recs.get(fld['t'].replace('const ', ''))
                if sub and (fld['t'].startswith('CTU::FileInfo::') or fld['t'] in ('Location',)):
                    continue  # nested summary struct: its own fields are checked
                w_ok = q in wreads
                r_ok = q in rwrites or name == 'CheckUnusedFunctions'
                ctx.ob('R22.3', 'field:%s:%s' % (name, q), w_ok and r_ok,
                       ('%s is written by %s and restored by %s' % (q, wfn['name'], rfn['name'])) if w_ok and r_ok else
                       ('summary field %s: %s' % (q, ('never serialized by ' + wfn['name']) if not w_ok else
                                                   ('serialized but never restored by ' + rfn['name'] + ' and its callees'))),
                       '%s:%d' % (rec['file'], fld['l']))
    ctx.floor('R22.3 summary structs covered', len(structs), 6)

    # ---- R22.6 the reader keeps every record it could parse ---------------------------------------------
    ctx.rule('R22.6', 'a reader stores every record it parsed: the insertion into the summary list is not conditional on a '
                      'membership test (set/map insert/find/count) or on the values of the record being loaded')
    from .common import paths
    MEMBERSHIP = ('insert', 'emplace', 'find', 'count', 'contains')
    SINK = ('push_back', 'emplace_back', 'insert', 'emplace', 'push_front')
    nsinks = 0
    seen_readers = set()
    for name, wfn, rfn in pairs:
        rcl = closure(F, [rfn], lambda g: is_repo(g) and any(p['t'].startswith(('const tinyxml2::XMLElement *', 'tinyxml2::XMLElement *')) for p in g['params']))
        for f in rcl:
            if F.key(f) in seen_readers:
                continue
            seen_readers.add(F.key(f))
            b = F.body(f)
            if b is None:
                continue

            def leaf_kind(n):
                """classify a branch condition leaf: returns a description if it makes record acceptance depend on
                earlier records or on record values, else None"""
                for y in walk(n):
                    if y.get('k') == 'CXXMemberCallExpr' and (y.get('fn') or '').rsplit('::', 1)[-1] in MEMBERSHIP and \
                            any(t in (y.get('fn') or '') for t in ('std::set', 'std::map', 'std::unordered', 'std::multiset', 'std::multimap')):
                        return 'membership test %s' % y['fn'].rsplit('::', 2)[-2] + '::' + y['fn'].rsplit('::', 1)[-1]
                    if y.get('k') == 'MemberExpr' and y.get('dk') == 'Field' and any(y.get('n', '').startswith(st + '::') for st in structs):
                        return 'value of record field %s' % y['n']
                return None

            def cond(n, truth):
                k_ = leaf_kind(n)
                return (('filter', k_, n.get('l')),) if k_ else ()

            def observe(n):
                if n.get('k') != 'CXXMemberCallExpr' or (n.get('fn') or '').rsplit('::', 1)[-1] not in SINK:
                    return False
                callee = n['c'][0]
                obj = strip(callee['c'][0]) if callee.get('c') else None
                while obj is not None and obj.get('k') == 'MemberExpr' and obj.get('arrow') and obj.get('c') and obj.get('dk') == 'Field' and False:
                    obj = strip(obj['c'][0])
                return obj is not None and obj.get('k') in ('MemberExpr', 'DeclRefExpr') and \
                    any(t in (obj.get('t') or '') for t in ('std::list', 'std::vector', 'std::set', 'std::map'))

            try:
                res = paths.analyse(b['body'], cond=cond, observe=observe)
            except AnalysisBroken:
                continue
            for i, st in res.at.items():
                n = res.at_node[i]
                filt = sorted(x for x in st if isinstance(x, tuple) and x[0] == 'filter')
                nsinks += 1
                idx = sum(1 for j in res.at if res.at_node[j]['l'] < n['l'])
                ctx.ob('R22.6', 'keep:%s#%d' % (f['name'], idx), not filt,
                       ('%s stores the parsed record unconditionally (line %s)' % (f['name'], n['l'])) if not filt else
                       ('%s stores a parsed record only if %s (line %s) holds: records that the in-memory analysis sees are dropped '
                        'when summaries are read back from the build dir' % (f['name'], filt[0][1], filt[0][2])),
                       '%s:%s' % (f['file'], n['l']))
    ctx.floor('R22.6 record insertions in readers', nsinks, 4)

    # ---- R22.4 drivers --------------------------------------------------------------------------------
    drivers = [f for f in F.find('CppCheck::analyseWholeProgram')]
    if len(drivers) != 2:
        raise AnalysisBroken('expected the two CppCheck::analyseWholeProgram overloads, found %d' % len(drivers))
    for d in drivers:
        kind = 'build-dir' if len(d['params']) >= 3 else 'in-memory'
        body = F.body(d)['body']
        awp = [x for x in walk(body) if x.get('k') == 'CXXMemberCallExpr' and x.get('fn') == 'Check::analyseWholeProgram']
        inst = [x for x in walk(body) if x.get('fn') == 'CheckInstances::get']
        loops_ok = False
        for lp in walk(body):
            if lp.get('k') == 'CXXForRangeStmt' and any(y.get('fn') == 'CheckInstances::get' for y in walk(lp.get('range') or {})):
                if any(y.get('fn') == 'Check::analyseWholeProgram' for y in walk(lp.get('body') or {})):
                    loops_ok = True
        ctx.ob('R22.4', 'driver:%s:registry' % kind, loops_ok,
               '%s driver %s every registered check\'s analyseWholeProgram' % (kind, 'calls' if loops_ok else 'does NOT call'),
               '%s:%d' % (d['file'], d['line']))
        # unused functions under the same test
        uf_calls = [x for x in walk(body) if (x.get('fn') or '').startswith('CheckUnusedFunctions::') and
                    x.get('fn', '').endswith(('::check', '::analyseWholeProgram'))]
        ctx.ob('R22.4', 'driver:%s:unusedFunction' % kind, bool(uf_calls),
               '%s driver %s the unused-function analysis' % (kind, 'runs' if uf_calls else 'does NOT run'),
               '%s:%d' % (d['file'], d['line']))

    # ---- R22.5 container keys -----------------------------------------------------------------------
    written = {}
    for f in F.all_fns():
        if not is_repo(f):
            continue
        if not any(c['f'].startswith('AnalyzerInformation::setFileInfo(') for c in f['calls']):
            continue
        body = F.body(f)['body']
        for x in walk(body):
            if x.get('k') == 'CXXMemberCallExpr' and x.get('fn') == 'AnalyzerInformation::setFileInfo':
                a = call_args(x)[0]
                s = xmlmodel.const_string(F, body, a)
                if s is None:
                    a0 = strip_all(a)
                    if a0.get('fn') == 'Check::name':
                        s = '<Check::name()>'
                    else:
                        s = '<dynamic:%s>' % xmlmodel.classify_dyn(a)
                written.setdefault(s, (f, x))
    ctx.floor('R22.5 setFileInfo call sites', len(written), 3)
    bd = [d for d in drivers if len(d['params']) >= 3][0]
    disp = set()
    for fn in (bd, F.one('CheckUnusedFunctions::analyseWholeProgram', nparams=3)):
        body = F.body(fn)['body']
        for x in walk(body):
            if x.get('k') == 'CallExpr' and x.get('fn') in ('strcmp', 'std::strcmp'):
                args = call_args(x)
                if any(strip(a).get('k') == 'DeclRefExpr' and strip(a).get('n') == 'checkattr' for a in args):
                    for a in args:
                        s = xmlmodel.const_string(F, body, a)
                        if s is not None:
                            disp.add(s)
            if x.get('k') == 'CXXOperatorCallExpr' and x.get('op') == '==':
                args = x['c'][1:]
                if any(strip(a).get('k') == 'DeclRefExpr' and strip(a).get('n') == 'checkattr' for a in args) and \
                        any(strip_all(a).get('fn') == 'Check::name' for a in args):
                    disp.add('<Check::name()>')
    for k, (f, x) in sorted(written.items()):
        ok = k in disp
        ctx.ob('R22.5', 'key:%s' % k, ok,
               ('summary key %s written in %s is dispatched by the build-dir driver' % (k, f['name'])) if ok else
               ('summary key %s is written by %s but no reader dispatches on it (known keys: %s)' % (k, f['name'], sorted(disp))),
               '%s:%d' % (f['file'], x['l']))


INT_WIDTH = {'char': 8, 'signed char': 8, 'unsigned char': 8, 'bool': 1, 'short': 16, 'unsigned short': 16, 'int': 32, 'unsigned int': 32, 'unsigned': 32,
             'nonneg int': 32, 'long': 64, 'unsigned long': 64, 'long long': 64, 'unsigned long long': 64, 'std::size_t': 64, 'size_t': 64,
             'int64_t': 64, 'uint64_t': 64, 'std::int64_t': 64, 'std::uint64_t': 64, 'MathLib::bigint': 64, 'MathLib::biguint': 64,
             'int32_t': 32, 'uint32_t': 32, 'std::int32_t': 32, 'std::uint32_t': 32, 'std::uint8_t': 8, 'uint8_t': 8}
UNSIGNED = {'unsigned char', 'unsigned short', 'unsigned int', 'unsigned', 'unsigned long', 'unsigned long long', 'std::size_t', 'size_t', 'uint64_t', 'std::uint64_t',
            'MathLib::biguint', 'uint32_t', 'std::uint32_t', 'std::uint8_t', 'uint8_t', 'bool'}
# members whose declared type is signed but whose values are never negative (reading them through an unsigned conversion loses nothing)
NONNEG_FIELDS = ('lineNumber', 'column', 'callArgNr', 'myArgNr', 'argnr', 'line', 'lineNr')


def r22_7(ctx):
    """R22.7  numeric round trip: in every summary reader (load*FromXml), a member restored from an attribute through a conversion that returns an
    integral type T_c can represent every value the member's type T_f holds: T_c is not narrower than T_f, and T_c is not unsigned when T_f is
    signed (unless the member is one of the never-negative position/argument-number members)."""
    F = ctx.facts
    ctx.rule('R22.7', 'numeric members are restored through a conversion that covers the member\'s type')
    n = 0
    for f in F.all_fns():
        if not (f['file'] == 'lib/ctu.cpp' or f['file'].startswith('lib/check')) or not any(t in f['name'] for t in ('loadFromXml', 'loadBaseFromXml', 'loadUnsafeUsageListFromXml', 'loadFileInfoFromXml', 'loadFunctionsFromXml')):
            continue
        b = F.body(f)
        if b is None:
            continue
        for x in walk(b['body']):
            if x.get('k') != 'BinaryOperator' or x.get('op') != '=':
                continue
            lhs = strip(x['c'][0])
            if lhs is None or lhs.get('k') != 'MemberExpr' or lhs.get('dk') != 'Field':
                continue
            tf = (lhs.get('t') or '').replace('const ', '').strip()
            if tf not in INT_WIDTH:
                continue
            # the conversion: innermost call on the right-hand side whose type is integral
            conv = None
            for y in walk(x['c'][1]):
                if y.get('k') in ('CallExpr', 'CXXMemberCallExpr') and (y.get('t') or '').replace('const ', '').strip() in INT_WIDTH and y.get('fn'):
                    conv = y
                    break
            if conv is None or any(y.get('k') in ('CStyleCastExpr', 'CXXStaticCastExpr') for y in walk(x['c'][1])):
                continue
            tc = conv['t'].replace('const ', '').strip()
            n += 1
            fld = lhs['n'].split('::')[-1]
            narrower = INT_WIDTH[tc] < INT_WIDTH[tf]
            sign_loss = tc in UNSIGNED and tf not in UNSIGNED and fld not in NONNEG_FIELDS
            ok = not narrower and not sign_loss
            ctx.ob('R22.7', 'numeric:%s:%s' % (f['name'], lhs['n']), ok,
                   ('%s restores %s (%s) through %s returning %s' % (f['name'], lhs['n'], tf, conv['fn'], tc)) if ok else
                   ('%s restores %s (%s) through %s, which returns %s: %s - a summary that went through a file gives a different whole-program finding than '
                    'the same summary kept in memory' % (f['name'], lhs['n'], tf, conv['fn'], tc,
                                                         'negative values come back as huge positive ones' if sign_loss else 'large values are truncated')),
                   '%s:%s' % (f['file'], x['l']))
    ctx.floor('R22.7 numeric members restored by summary readers', n, 8)


def r22_8(ctx):
    """R22.8  join keys keep one spelling: the whole-program analysis joins an unsafe usage, a nested call and a function call by comparing the id strings
    (my-id / call-id) of records that were written by different writer functions.  Every writer of a `my-id` or `call-id` attribute therefore applies the same
    encoding to the operand (today: none).  ErrorLogger::toxml is not invertible by the reader (bytes outside 0x20..0x7f become 'x', tinyxml2 does not undo that),
    so escaping the id on one side only makes ids that went through a file differ from their partners."""
    F = ctx.facts
    ctx.rule('R22.8', 'all writers of the my-id / call-id join keys encode the id the same way')
    W = xmlmodel.Writer(F, is_writer=lambda fn: True, max_depth=0)
    enc = {}    # (function, attribute) -> descriptor
    for f in F.all_fns():
        if f['file'] != 'lib/ctu.cpp':
            continue
        parts = W.parts_of_function(f)
        if not any(p[0] == 'lit' and '="' in p[1] for p in parts):
            # attribute names come from constants: look at the raw sequence lit(name) lit(=") dyn
            pass
        # walk the part sequence: a literal ending in `my-id="` / `call-id="` (possibly split over several literal parts) followed by a dynamic part
        text = ''
        for p in parts:
            if p[0] == 'lit':
                text += p[1]
                continue
            m = re.search(r'(my-id|call-id)="$', text)
            if m:
                enc[(f['name'], m.group(1))] = (p[1], p[3].get('l'))
            text += '\\x00'
    ctx.floor('R22.8 writers of join-key attributes', len(enc), 3)
    kinds = {}
    for (fn, attr), (desc, line) in enc.items():
        k = 'escaped' if desc.startswith('call:ErrorLogger::toxml') else 'raw' if desc.startswith(('var:', 'other', 'call:')) else desc
        kinds.setdefault(k, []).append((fn, attr, line))
    major = max(kinds, key=lambda k: len(kinds[k]))
    for k, sites in kinds.items():
        for fn, attr, line in sites:
            ok = k == major
            ctx.ob('R22.8', 'join-key:%s:%s' % (fn, attr), ok, ('%s writes %s %s like the other writers' % (fn, attr, k)) if ok else
                   ('%s writes the join key %s %s while the other writers write it %s (%s): after a round trip through a file an id that contains a character the escaping '
                    'changes no longer equals its partner, and the cross-file finding is lost' % (fn, attr, k, major, ', '.join(sorted({s_[0] for s_ in kinds[major]})))),
                   'lib/ctu.cpp:%s' % line)
