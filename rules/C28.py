"""C28  Every built-in finding id is discoverable through --errorlist.

Decides  EMIT subset-of LIST  where
  EMIT = ids of every reporting call (ErrorMessage construction, directly or through the wrappers
         found by fixpoint: Check::reportError, Tokenizer::reportError, Preprocessor::error, ...)
         in a function reachable from the analysis entry points, with a user-facing severity
         (not debug / internal / none); ids are evaluated by an abstract interpreter over the
         function's constant-valued locals (literals, ?:, +=, switch, getMessageId, capitalise idiom);
  LIST = ids obtained by interpreting CppCheck::getErrorMessages and, context-sensitively (arguments
         bound: booleans, enumerators, strings, ValueFlow::Value flags), everything it calls.
Outside the claim, as in the property: ids synthesised from library <warn> entries, addon ids,
clang-tidy ids.  InternalError ids (errortypes.cpp typeToString) are included: they are what
syntaxError/unknownMacro/... findings carry.

LIST is an over-approximation (a listing call that returns early at run time still counts as
listing), so the rule can miss but not false-alarm on that side; EMIT ids are exact string sets.
"""
import collections

from .common.facts import walk, strip, strip_all, call_args, AnalysisBroken
from .common.reports import Reports, TOP
from .common.absint import Interp

USER_SEV_EXCLUDED = {'Severity::debug', 'Severity::internal', 'Severity::none'}

# emit sites whose id is not a finite string set, each with the reason it is outside the claim
NONLITERAL_OK = {
    'CheckFunctions::checkProhibitedFunctions': 'id is <function>Called built from library <warn> configuration (outside the claim)',
    'ErrorMessage::fromInternalError': 'id is InternalError::id; enumerated separately from typeToString()',
    'CheckFunctions::getErrorMessages': 'listing side of the library <warn> ids',
}
# functions that assign ErrorMessage::id directly, outside the claim
ID_ASSIGN_OK = {
    'CppCheck::executeAddons': 'addon ids (<addon>-<errorId>) are outside the claim',
    'CppCheck::analyseClangTidy': 'clang-tidy ids are outside the claim',
}

# ids outside the claim ("built-in checks, preprocessor, tokenizer and symbol database ... for analysed code")
ID_OUTSIDE_CLAIM = {
    'checkersReport': 'the run summary ("Active checkers"), not a finding about analysed code (C25 calls it the checkers summary)',
    'cppcheckError': 'emitted by the process executor (cli/) about a crashed worker, not by a check/preprocessor/tokenizer/symbol database',
    '': 'the intentionally empty id in CppCheck::check is only used to probe wildcard suppressions, it is never reported',
}

ANALYSIS_ROOTS = ['CppCheck::check', 'CppCheck::checkFile', 'CppCheck::checkBuffer', 'CppCheck::analyseWholeProgram',
                  'CppCheckExecutor::check_internal', 'CppCheckExecutor::reportUnmatchedSuppressions',
                  'SingleExecutor::check', 'ThreadExecutor::check', 'ProcessExecutor::check']


def run(ctx):
    F = ctx.facts
    r28_4(ctx)
    ctx.rule('R28.1', 'every id a reporting call reachable from the analysis can carry (user-facing severity) is '
                      'produced by CppCheck::getErrorMessages')
    ctx.rule('R28.2', 'every InternalError id (typeToString) thrown by analysis code is listed')
    ctx.rule('R28.3', 'no emit site with a non-enumerable id outside the documented exclusions')
    R = Reports(F)
    roots = [f for n in ANALYSIS_ROOTS for f in F.find(n)]
    if len(roots) < 6:
        raise AnalysisBroken('analysis entry points: found %d of the expected roots' % len(roots))
    reach = F.reachable(roots, stop=lambda f: f['name'].endswith('::getErrorMessages'))
    ctx.counts['functions_reachable_from_analysis'] = len(reach)

    lister = F.one('CppCheck::getErrorMessages')
    L = R.listed(lister)
    listed = {i for i in L if i != TOP}
    ctx.floor('ids produced by getErrorMessages (static)', len(listed), 300)

    # ---- EMIT ---------------------------------------------------------------------------------------
    emit = collections.defaultdict(list)
    bound_cache = {}
    nonlit = []
    nsites = 0
    for e in R.final:
        fn = e['fn']
        if F.key(fn) not in reach or fn['name'].endswith('::getErrorMessages'):
            continue
        if e['sev'] and e['sev'] <= USER_SEV_EXCLUDED:
            continue
        nsites += 1
        ids = set(e['id'])
        if len(ids) > 1 and TOP not in ids and any(p['t'].replace('const ', '') in ('bool', 'std::string &', 'std::string', 'FunctionType')
                                                   or p['t'].startswith('const char') for p in fn['params']):
            # the id depends on parameters through control flow: evaluate per analysis call site
            bkey = F.key(fn)
            if bkey not in bound_cache:
                bound_cache[bkey] = caller_bound_effects(F, R, fn, reach)
            be = bound_cache[bkey]
            if be is not None:
                mine = set()
                for e2 in be:
                    if e2['node'] is e['node'] and F.key(e2['callee']) == F.key(e['callee']):
                        mine |= {i for i in e2['id'] if isinstance(i, str)}
                if mine and TOP not in mine:
                    ids = mine
        if TOP in ids:
            # one level of caller binding (e.g. shadowError(tok, "variable", ...))
            bound = caller_bound_ids(F, R, fn, reach)
            if bound is not None and TOP not in bound:
                ids = (ids - {TOP}) | bound
            else:
                nonlit.append(e)
                ids.discard(TOP)
        for i in ids:
            if isinstance(i, str):
                emit[i].append(e)
    ctx.floor('reporting call sites reachable from the analysis (user-facing severity)', nsites, 300)
    ctx.floor('distinct ids emitted', len(emit), 330)

    for i in sorted(emit):
        if i in ID_OUTSIDE_CLAIM:
            ctx.note('id %r outside the claim: %s' % (i, ID_OUTSIDE_CLAIM[i]))
            continue
        es = emit[i]
        e = es[0]
        ok = i in listed
        where = '%s:%s' % (e['fn']['file'], e['line'])
        ctx.ob('R28.1', 'id:%s' % i, ok,
               ('id %s (emitted by %s) is produced by getErrorMessages' % (i, e['fn']['name'])) if ok else
               ('id %s is emitted by %s (severity %s) but no call chain from CppCheck::getErrorMessages produces it: '
                'it is missing from --errorlist' % (i, ', '.join(sorted({x['fn']['name'] for x in es})),
                                                   '/'.join(sorted(s.replace('Severity::', '') for s in e['sev'])))),
               where, {'emitters': ['%s (%s:%s)' % (x['fn']['name'], x['fn']['file'], x['line']) for x in es][:6],
                       'call_chain': F.chain(reach, F.key(e['fn']))[-6:]})

    # ---- R28.3 non-literal ids ------------------------------------------------------------------------
    for e in nonlit:
        n = e['fn']['name']
        if n in NONLITERAL_OK:
            ctx.note('non-literal id at %s:%s (%s): %s' % (e['fn']['file'], e['line'], n, NONLITERAL_OK[n]))
            ctx.ob('R28.3', 'nonliteral:%s' % n, True, 'non-literal id, excluded: ' + NONLITERAL_OK[n], '%s:%s' % (e['fn']['file'], e['line']))
        else:
            raise AnalysisBroken('emit site %s (%s:%s) builds its id from run-time data; the id set cannot be enumerated '
                                 '(add an evaluator idiom or an exclusion with a reason)' % (n, e['fn']['file'], e['line']))
    # direct assignments to ErrorMessage::id
    for f in F.all_fns():
        if not f['file'].startswith(('lib/', 'cli/')) or f.get('cls') in ('ErrorMessage', 'SuppressionList::ErrorMessage'):
            continue
        ws = [a for a in f['acc'] if a['n'] == 'ErrorMessage::id' and a['a'] != 'r']
        if not ws:
            continue
        if f['name'] in ID_ASSIGN_OK:
            ctx.ob('R28.3', 'idassign:%s' % f['name'], True, 'assigns ErrorMessage::id; excluded: ' + ID_ASSIGN_OK[f['name']],
                   '%s:%d' % (f['file'], ws[0]['l']))
            continue
        if F.key(f) not in reach:
            continue
        body = F.body(f)['body']
        it = Interp(F, f, body)
        it.run()
        for x in walk(body):
            if x.get('k') == 'CXXOperatorCallExpr' and x.get('op') == '=' and len(x.get('c', ())) > 2:
                l = strip(x['c'][1])
                if l.get('k') == 'MemberExpr' and l.get('n') == 'ErrorMessage::id':
                    vals = it.ev(x['c'][2])
                    if TOP in vals or any(isinstance(v, tuple) for v in vals):
                        raise AnalysisBroken('%s assigns a run-time string to ErrorMessage::id (%s:%s)' % (f['name'], f['file'], x['l']))
                    for v in vals:
                        if v in ID_OUTSIDE_CLAIM:
                            ctx.note('id %r outside the claim: %s' % (v, ID_OUTSIDE_CLAIM[v]))
                            continue
                        ok = v in listed
                        ctx.ob('R28.1', 'id:%s' % v, ok,
                               'id %s assigned to ErrorMessage::id in %s %s' % (v, f['name'], 'is listed' if ok else 'is missing from --errorlist'),
                               '%s:%s' % (f['file'], x['l']))

    # ---- R28.2 InternalError ids -------------------------------------------------------------------------
    tts = [f for f in F.find('typeToString') if f['file'] == 'lib/errortypes.cpp']
    if len(tts) != 1:
        raise AnalysisBroken('typeToString(InternalError::Type) not found in lib/errortypes.cpp')
    tbody = F.body(tts[0])['body']
    type_to_id = {}
    for sw in walk(tbody):
        if sw.get('k') != 'SwitchStmt':
            continue
        items = sw['body'].get('c', [])
        pending = []
        for c in items:
            x = c
            while x is not None and x.get('k') in ('CaseStmt', 'DefaultStmt'):
                if x['k'] == 'CaseStmt':
                    v = strip(x.get('val'))
                    if v is not None and v.get('k') == 'DeclRefExpr':
                        pending.append(v['n'])
                x = x.get('sub')
            if x is not None and x.get('k') == 'ReturnStmt':
                lits = [y.get('v') for y in walk(x) if y.get('k') == 'StringLiteral']
                for p in pending:
                    if lits:
                        type_to_id[p] = lits[0]
                pending = []
    ctx.floor('InternalError types mapped to ids', len(type_to_id), 6)
    used = collections.defaultdict(list)
    for k, (fn, _, _) in reach.items():
        if not fn['file'].startswith(('lib/', 'cli/')):
            continue
        if not any(c['f'].startswith('InternalError::InternalError(') for c in fn['calls']):
            continue
        b = F.body(fn)
        if b is None:
            continue
        for x in walk(b['body']):
            if x.get('k') in ('CXXConstructExpr', 'CXXTemporaryObjectExpr') and x.get('cls') == 'InternalError':
                enums = [y['n'] for y in walk(x) if y.get('k') == 'DeclRefExpr' and y.get('dk') == 'EnumConstant' and 'InternalError::' in y['n']]
                if not enums:
                    # default argument: InternalError::INTERNAL
                    for y in walk(x):
                        if y.get('k') == 'DefaultArg':
                            enums = ['InternalError::INTERNAL']
                for en in enums:
                    used[en].append((fn, x))
    for en, idv in sorted(type_to_id.items()):
        sites = used.get(en) or used.get(en.replace('Type::', '')) or []
        if not sites:
            ctx.note('InternalError type %s is never thrown by analysis code' % en)
            continue
        fn, x = sites[0]
        ok = idv in listed
        ctx.ob('R28.2', 'id:%s' % idv, ok,
               ('InternalError id %s is listed' % idv) if ok else
               ('InternalError id %s (type %s, thrown e.g. by %s and %d other sites, reported through '
                'ErrorMessage::fromInternalError) is not produced by getErrorMessages: missing from --errorlist'
                % (idv, en, fn['name'], len(sites) - 1)),
               '%s:%s' % (fn['file'], x['l']))


def caller_bound_effects(F, R, fn, reach):
    """fn's effects with its parameters bound to the arguments of each analysis-reachable call site
    (None when no such call site exists)."""
    out = []
    found = False
    names = [fn['id']] + list(fn.get('overrides', ()))
    for k, (g, _, _) in reach.items():
        if g['name'].endswith('::getErrorMessages'):
            continue
        if not any(c['f'] in names for c in g['calls']):
            continue
        b = F.body(g)
        if b is None:
            continue
        bindings = []

        def on_call(x, it, bindings=bindings):
            if x.get('fid') in names:
                bindings.append([it.ev(a) for a in call_args(x)])

        Interp(F, g, b['body'], on_call=on_call, ret_eval=R.ret_eval).run()
        for bd in bindings:
            found = True
            bd2 = [v if (TOP not in v and not any(isinstance(x, tuple) for x in v)) else None for v in bd]
            out += R._effects_of(fn, R.summaries, bd2, None, mode='emit')
    return out if found else None


def caller_bound_ids(F, R, fn, reach):
    effs = caller_bound_effects(F, R, fn, reach)
    if effs is None:
        return None
    out = set()
    for e in effs:
        out |= {i if isinstance(i, str) else TOP for i in e['id']}
    return out


def r28_4(ctx):
    """R28.4  the documentation messages reach the caller's logger unfiltered: in CppCheck::getErrorMessages every call of a *::getErrorMessages
    function receives the function's own ErrorLogger parameter.  A CppCheck instance's logger drops messages whose formatted text (a template
    without {id}, no location) was already seen, so distinct ids with the same example text would collapse into one."""
    from .common.facts import walk, strip, call_args
    F = ctx.facts
    ctx.rule('R28.4', 'getErrorMessages passes the caller\'s logger to every documentation emitter')
    g = F.one('CppCheck::getErrorMessages')
    body = F.body(g)['body']
    pdi = {p['di'] for p in g['params']}
    inits = {v['di']: v['init'] for v in walk(body) if v.get('k') == 'VarDecl' and v.get('init') is not None}
    n = 0
    for x in walk(body):
        if x.get('k') in ('CallExpr', 'CXXMemberCallExpr') and (x.get('fn') or '').endswith('::getErrorMessages'):
            for a in call_args(x):
                t = ''
                for y in walk(a):
                    if y.get('t') and 'ErrorLogger' in y['t']:
                        t = y['t']
                        break
                if not t:
                    continue
                n += 1
                root = a
                while root is not None and root.get('k') in ('ImplicitCastExpr', 'UnaryOperator', 'ParenExpr', 'MaterializeTemporaryExpr') and root.get('c'):
                    root = root['c'][0]
                # a local reference that is bound to the parameter is the parameter
                hops = 0
                while root is not None and root.get('k') == 'DeclRefExpr' and root.get('di') not in pdi and root.get('di') in inits and hops < 4:
                    root = inits[root['di']]
                    while root is not None and root.get('k') in ('ImplicitCastExpr', 'UnaryOperator', 'ParenExpr', 'MaterializeTemporaryExpr') and root.get('c'):
                        root = root['c'][0]
                    hops += 1
                ok = root is not None and root.get('k') == 'DeclRefExpr' and root.get('di') in pdi
                ctx.ob('R28.4', 'logger:%s' % x['fn'], ok, ('%s receives the caller\'s logger' % x['fn']) if ok else
                       ('%s is given %s instead of the caller\'s logger: the list goes through a duplicate filter keyed on text without the id, so ids whose '
                        'example messages coincide disappear from --errorlist' % (x['fn'], (root or {}).get('n') or (root or {}).get('k'))), '%s:%s' % (g['file'], x['l']))
    ctx.floor('R28.4 documentation emitters called by getErrorMessages', n, 4)
