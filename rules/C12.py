"""C12  Configuration selection honours -D/-U and covers guarded code  (partial: the plumbing of -D/-U and the exits of the configuration loop).

Decides (structural necessary conditions, not the behaviour of Preprocessor::getConfigs on arbitrary conditional structures):

R12.1  Every simplecpp::DUI handed to simplecpp::preprocess / simplecpp::load from lib/ is the result of a DUI producer
       (a function returning simplecpp::DUI; today createDUI) - no call site builds its own option block.
R12.2  In every DUI producer, on every path to a return, DUI::defines has received Settings::userDefines and
       DUI::undefined has received Settings::userUndefs, and neither is cleared/overwritten afterwards.
R12.3  In simplecpp::preprocess every insertion into the macro table is guarded by a lookup in DUI::undefined
       (for a literal macro name: a lookup of that literal).  An unguarded insertion defines a macro the user removed with -U.
R12.4  The loops over the configurations of a file in CppCheck::checkInternal leave early (break / return) only under the
       terminate test or the `!force && ++n > maxConfigs` test.  Any other early exit leaves configurations unanalysed although
       the number of configurations is within --max-configs.
R12.5  Both calls of the configuration enumerator (main file, every included file) in Preprocessor::getConfigs pass
       Settings::userDefines and Settings::userUndefs (sibling agreement), and the enumerator consults its `undefined`
       parameter wherever it adds a configuration read from a condition.

Not decided: which configurations getConfigs enumerates for a given conditional structure (value dependent), the cfg strings,
simplecpp's evaluation of conditions.
"""
from .common.facts import walk, walk_parents, children, strip_all, call_args, AnalysisBroken
from .common import paths

DUI_T = 'simplecpp::DUI'
REQUIRED = [('Settings::userDefines', 'simplecpp::DUI::defines', '-D'), ('Settings::userUndefs', 'simplecpp::DUI::undefined', '-U')]
CLEARING = ('w', 'm:operator=', 'm:clear', 'm:erase', 'm:swap', 'm:remove', 'm:remove_if', 'm:pop_back', 'm:pop_front', 'm:assign', 'm:resize')
CALLS = ('CallExpr', 'CXXMemberCallExpr', 'CXXOperatorCallExpr')


def is_dui_type(t):
    t = (t or '').replace('const ', '').replace('struct ', '').strip()
    return t in (DUI_T, 'DUI')


def field_reads(n, name):
    return any(y.get('k') == 'MemberExpr' and y.get('n') == name for y in walk(n))


def r12_1_2(ctx):
    F = ctx.facts
    ctx.rule('R12.1', 'every simplecpp::DUI passed to simplecpp::preprocess / simplecpp::load from lib/ comes from a DUI producer')
    ctx.rule('R12.2', 'every DUI producer transfers Settings::userDefines to DUI::defines and Settings::userUndefs to DUI::undefined on every path to a return')
    producers = [f for f in F.all_fns() if f['file'].startswith(('lib/', 'cli/', 'frontend/')) and is_dui_type(f.get('ret')) and F.body(f) is not None]
    seen = set()
    producers = [f for f in producers if not (F.key(f) in seen or seen.add(F.key(f)))]
    ctx.floor('R12.2 DUI producers', len(producers), 1)
    good = set()
    for f in producers:
        body = F.body(f)['body']

        def gen(n):
            if n.get('k') in CALLS:
                out = []
                for src, dst, _ in REQUIRED:
                    if field_reads(n, src) and any(y.get('k') == 'MemberExpr' and y.get('n') == dst and (y.get('a') or 'r') not in ('r', 'a') for y in walk(n)):
                        out.append(dst)
                return out
            if n.get('k') == 'BinaryOperator' and n.get('op') == '=':
                lhs = strip_all(n['c'][0])
                for src, dst, _ in REQUIRED:
                    if lhs.get('k') == 'MemberExpr' and lhs.get('n') == dst and field_reads(n['c'][1], src):
                        return [dst]
            return ()

        def kill(n):
            if n.get('k') in CALLS or (n.get('k') == 'BinaryOperator' and n.get('op') == '='):
                out = []
                for src, dst, _ in REQUIRED:
                    if field_reads(n, src):
                        continue
                    for y in children(n):
                        y = strip_all(y)
                        if y.get('k') == 'MemberExpr' and y.get('n') == dst and y.get('a') in CLEARING:
                            out.append(dst)
                return out
            return ()
        res = paths.analyse(body, gen=gen, kill=kill)
        rets = [(k, n, s) for k, n, s in res.exits if k in ('return', 'end')]
        if not rets:
            raise AnalysisBroken('%s: no return found' % f['name'])
        allok = True
        for src, dst, opt in REQUIRED:
            bad = [n for k, n, s in rets if dst not in s]
            ok = not bad
            allok &= ok
            ctx.ob('R12.2', 'dui-transfer:%s:%s' % (f['name'], dst.split('::')[-1]), ok,
                   ('%s copies %s into %s on every path to its %d return(s)' % (f['name'], src, dst, len(rets))) if ok else
                   ('%s returns a simplecpp::DUI whose %s has not received %s on the path to the return at line %s: %s given on the command line does not reach the preprocessor'
                    % (f['name'], dst, src, bad[0].get('l'), opt)), '%s:%s' % (f['file'], f['line']))
        if allok:
            good.add(f['id'])
    # R12.1
    nsites = 0
    for f in F.all_fns():
        if not f['file'].startswith(('lib/', 'cli/', 'frontend/')):
            continue
        if not any(c['f'].startswith(('simplecpp::preprocess(', 'simplecpp::load(')) for c in f['calls']):
            continue
        b = F.body(f)
        if b is None:
            continue
        body = b['body']
        inits = {v['di']: v for v in walk(body) if v.get('k') == 'VarDecl' and v.get('di')}
        for x in walk(body):
            if x.get('k') == 'CallExpr' and x.get('fn') in ('simplecpp::preprocess', 'simplecpp::load'):
                args = [a for a in call_args(x) if is_dui_type((strip_all(a).get('t') or '').replace('&', '').strip())]
                if not args:
                    continue       # overload without options
                nsites += 1
                a = strip_all(args[0])
                origin, ok = 'an expression of kind %s' % a.get('k'), False
                if a.get('k') == 'DeclRefExpr' and a.get('di') in inits and inits[a['di']].get('init') is not None:
                    calls = [y for y in walk(inits[a['di']]['init']) if y.get('k') == 'CallExpr' and y.get('fid')]
                    prods = [y for y in calls if any(g['id'] in good for g in F.resolve(f, y['fid']))]
                    origin = 'local %s initialised by %s' % (a.get('n'), ', '.join(y.get('fn') or '?' for y in calls) or 'no call')
                    # no write to the -D/-U members between the producer and the use
                    tamper = [y for y in walk(body) if y.get('k') == 'MemberExpr' and y.get('n') in [d for _, d, _ in REQUIRED] and (y.get('a') or 'r') not in ('r', 'a')
                              and any(z.get('k') == 'DeclRefExpr' and z.get('di') == a['di'] for z in walk(y))]
                    ok = bool(prods) and not tamper
                    if tamper:
                        origin += ', then modified at line %s' % tamper[0].get('l')
                elif a.get('k') == 'CallExpr' and a.get('fid') and any(g['id'] in good for g in F.resolve(f, a['fid'])):
                    ok, origin = True, 'result of %s' % a.get('fn')
                elif a.get('k') in ('MemberExpr',) or (a.get('k') == 'DeclRefExpr' and a.get('dk') == 'ParmVar'):
                    raise AnalysisBroken('%s passes a simplecpp::DUI held in %s to %s: the rule follows only locals and temporaries' % (f['name'], a.get('n'), x['fn']))
                ctx.ob('R12.1', 'dui-origin:%s:%s' % (f['name'], x['fn'].split('::')[-1]), ok,
                       ('%s passes %s to %s' % (f['name'], origin, x['fn'])) if ok else
                       ('%s passes a simplecpp::DUI to %s that is %s, not the unmodified result of a DUI producer that carries -D and -U' % (f['name'], x['fn'], origin)),
                       '%s:%s' % (f['file'], x['l']))
    ctx.floor('R12.1 preprocess/load call sites with options', nsites, 2)


def _undef_lookup(n, bools):
    """n is a leaf condition.  Returns (name_sig, sense) if n tests `X.undefined.find(name) ==/!= X.undefined.end()`; sense True means
    "truth of n implies the name is NOT in the set"."""
    n = strip_all(n)
    if n.get('k') == 'DeclRefExpr' and n.get('di') in bools:
        return _undef_lookup(bools[n['di']], bools)
    if n.get('k') in ('BinaryOperator', 'CXXOperatorCallExpr') and n.get('op') in ('==', '!='):
        ops = [strip_all(c) for c in (call_args(n) if n.get('k') == 'CXXOperatorCallExpr' else n['c'])]
        if len(ops) != 2:
            return None
        find = [o for o in ops if o.get('k') == 'CXXMemberCallExpr' and (o.get('fn') or '').endswith('::find')
                and any(y.get('k') == 'MemberExpr' and y.get('n') == 'simplecpp::DUI::undefined' for y in walk(o))]
        end = [o for o in ops if o.get('k') == 'CXXMemberCallExpr' and (o.get('fn') or '').rsplit('::', 1)[-1] in ('end', 'cend')
               and any(y.get('k') == 'MemberExpr' and y.get('n') == 'simplecpp::DUI::undefined' for y in walk(o))]
        if len(find) == 1 and len(end) == 1:
            lits = [y.get('v') for a in call_args(find[0]) for y in walk(a) if y.get('k') == 'StringLiteral']
            return (lits[0] if lits else None), n['op'] == '=='
    if n.get('k') == 'CXXMemberCallExpr' and (n.get('fn') or '').rsplit('::', 1)[-1] in ('count', 'contains') and \
            any(y.get('k') == 'MemberExpr' and y.get('n') == 'simplecpp::DUI::undefined' for y in walk(n)):
        lits = [y.get('v') for a in call_args(n) for y in walk(a) if y.get('k') == 'StringLiteral']
        return (lits[0] if lits else None), False
    return None


def r12_3(ctx):
    F = ctx.facts
    ctx.rule('R12.3', 'every insertion into the macro table of simplecpp::preprocess is guarded by a lookup in DUI::undefined')
    cands = [f for f in F.find('simplecpp::preprocess') if F.body(f) is not None]
    if len(cands) != 1:
        raise AnalysisBroken('simplecpp::preprocess: %d definitions' % len(cands))
    f = cands[0]
    body = F.body(f)['body']
    tables = {v['di'] for v in walk(body) if v.get('k') == 'VarDecl' and (v.get('t') or '').replace('const ', '').split('::')[-1] == 'MacroMap'}
    if len(tables) != 1:
        raise AnalysisBroken('simplecpp::preprocess: %d macro tables' % len(tables))
    bools = {v['di']: v['init'] for v in walk(body) if v.get('k') == 'VarDecl' and (v.get('t') or '').replace('const ', '') == 'bool' and v.get('init') is not None}

    def is_insert(n):
        if n.get('k') == 'CXXMemberCallExpr' and (n.get('fn') or '').rsplit('::', 1)[-1] in ('insert', 'emplace', 'insert_or_assign', 'try_emplace', 'emplace_hint'):
            obj = strip_all(n['c'][0]) if n.get('c') else {}
            return any(y.get('k') == 'DeclRefExpr' and y.get('di') in tables for y in walk(obj))
        if n.get('k') == 'CXXOperatorCallExpr' and n.get('op') == '[]':
            a = call_args(n)
            return bool(a) and strip_all(a[0]).get('k') == 'DeclRefExpr' and strip_all(a[0]).get('di') in tables
        return False

    def cond(n, truth):
        r = _undef_lookup(n, bools)
        if r is None:
            return ()
        name, sense = r
        if truth == sense:
            return ['notundef', 'notundef:%s' % name] if name is not None else ['notundef']
        return ()
    res = paths.Must(cond=cond, observe=is_insert).run(body)
    n = 0
    seen = {}
    for i, s in res.at.items():
        node = res.at_node[i]
        lits = [y.get('v') for y in walk(node) if y.get('k') == 'StringLiteral']
        if lits:
            name = lits[0]
            ok = ('notundef:%s' % name) in s
            key = 'macro-insert:%s' % name
        else:
            ok = 'notundef' in s
            args = call_args(node)
            sig = '+'.join(sorted({y.get('n') for a in args for y in walk(a) if y.get('k') == 'DeclRefExpr' and y.get('dk') in ('Var', 'ParmVar')})) or 'expr'
            seen[sig] = seen.get(sig, 0) + 1
            key = 'macro-insert:<%s>#%d' % (sig, seen[sig])
            name = None
        n += 1
        ctx.ob('R12.3', key, ok, ('insertion into the macro table at line %s is guarded by a lookup in DUI::undefined' % node['l']) if ok else
               ('simplecpp::preprocess inserts %s into the macro table at line %s without consulting DUI::undefined: with -U%s the macro is still defined in every configuration'
                % (('the predefined macro ' + name) if name else 'a macro', node['l'], name or ' X')), '%s:%s' % (f['file'], node['l']))
    ctx.floor('R12.3 macro table insertions', n, 3)


def r12_4(ctx):
    F = ctx.facts
    ctx.rule('R12.4', 'the loops over the configurations of a file end early only under the terminate test or the max-configs test')
    f = F.one('CppCheck::checkInternal')
    body = F.body(f)['body']
    # the configuration set: locals assigned from Preprocessor::getConfigs
    cfgvars = set()
    for x in walk(body):
        if x.get('k') == 'VarDecl' and x.get('init') is not None and any(y.get('fn') == 'Preprocessor::getConfigs' for y in walk(x['init'])):
            cfgvars.add(x['di'])
        if x.get('k') in ('CXXOperatorCallExpr', 'BinaryOperator') and x.get('op') == '=':
            ops = call_args(x) if x.get('k') == 'CXXOperatorCallExpr' else x['c']
            if len(ops) == 2 and strip_all(ops[0]).get('k') == 'DeclRefExpr' and any(y.get('fn') == 'Preprocessor::getConfigs' for y in walk(ops[1])):
                cfgvars.add(strip_all(ops[0]).get('di'))
    if not cfgvars:
        raise AnalysisBroken('CppCheck::checkInternal: no local receives Preprocessor::getConfigs()')
    maxvars = {v['di'] for v in walk(body) if v.get('k') == 'VarDecl' and v.get('init') is not None and
               any(y.get('k') == 'MemberExpr' and y.get('n') in ('Settings::maxConfigs', 'Settings::maxConfigsOption', 'Settings::force') or
                   (y.get('fn') or '') in ('Settings::getMaxConfigs', 'Settings::isMaxConfigsAssigned') for y in walk(v['init']))}
    loops = []
    for x, parents in walk_parents(body):
        if x.get('k') == 'CXXForRangeStmt':
            rng = x.get('range') if isinstance(x.get('range'), dict) else None
            hdr = [c for c in children(x) if c is not x.get('body')]
            if any(y.get('k') == 'DeclRefExpr' and y.get('di') in cfgvars for h in ([rng] if rng else hdr) for y in walk(h)):
                loops.append(x)
    ctx.floor('R12.4 configuration loops', len(loops), 1)

    bools = {v['di']: v['init'] for v in walk(body) if v.get('k') == 'VarDecl' and (v.get('t') or '').replace('const ', '') == 'bool' and v.get('init') is not None}

    def allowed(c, depth=0):
        if depth < 3:
            for y in walk(c):
                if y.get('k') == 'DeclRefExpr' and y.get('di') in bools:
                    r = allowed(bools[y['di']], depth + 1)
                    if r:
                        return r
        for y in walk(c):
            if y.get('k') == 'CallExpr' and (y.get('fn') or '') == 'Settings::terminated':
                return 'terminated'
        reads_max = any((y.get('k') == 'DeclRefExpr' and y.get('di') in maxvars) or
                        (y.get('k') == 'MemberExpr' and y.get('n') in ('Settings::maxConfigs', 'Settings::maxConfigsOption')) for y in walk(c))
        if reads_max:
            return 'max-configs'
        return None
    nexits = 0
    for li, loop in enumerate(loops):
        lbody = loop.get('body')
        for x, parents in walk_parents(lbody):
            k = x.get('k')
            if k not in ('BreakStmt', 'ReturnStmt', 'GotoStmt'):
                continue
            inner = [p for p in parents if p.get('k') in ('ForStmt', 'WhileStmt', 'DoStmt', 'CXXForRangeStmt', 'SwitchStmt', 'LambdaExpr')]
            if any(p.get('k') == 'LambdaExpr' for p in inner):
                continue            # return from a lambda, not from the loop
            if k == 'BreakStmt' and inner:
                continue            # leaves a nested loop / switch
            nexits += 1
            why = None
            for p in parents:
                if p.get('k') == 'IfStmt' and p.get('cond') is not None and (any(z is x for z in walk(p.get('then') or {})) or any(z is x for z in walk(p.get('else') or {}))):
                    why = why or allowed(p['cond'])
                if p.get('k') == 'CXXCatchStmt' and 'TerminateException' in (p.get('ct') or ''):
                    why = why or 'terminated'
            ok = why is not None
            ctx.ob('R12.4', 'config-loop-exit:%d:%s#%d' % (li, k, nexits), ok,
                   ('%s at line %s leaves the configuration loop under the %s test' % (k, x['l'], why)) if ok else
                   ('CppCheck::checkInternal: %s at line %s leaves the loop over the configurations of the file under a condition that is neither the terminate test nor the '
                    'max-configs test: the remaining configurations are not analysed although their number is within --max-configs' % (k, x['l'])),
                   '%s:%s' % (f['file'], x['l']))
    ctx.floor('R12.4 early exits of the configuration loops', nexits, 2)


def r12_5(ctx):
    F = ctx.facts
    ctx.rule('R12.5', 'the configuration enumerator gets -D and -U for the main file and for every included file, and consults the undefined set where it adds a configuration')
    f = F.one('Preprocessor::getConfigs')
    body = F.body(f)['body']
    sites = [x for x in walk(body) if x.get('k') == 'CallExpr' and (x.get('fn') or '').split('::')[-1] == 'getConfigs' and x.get('fid')]
    ctx.floor('R12.5 enumerator call sites', len(sites), 2)
    for i, x in enumerate(sites):
        for src, _, opt in REQUIRED:
            ok = field_reads(x, src)
            ctx.ob('R12.5', 'enumerator-args:%d:%s' % (i, src.split('::')[-1]), ok,
                   ('call %d of the enumerator passes %s' % (i, src)) if ok else
                   ('Preprocessor::getConfigs: the call of the configuration enumerator at line %s does not pass %s: configurations of %s ignore %s'
                    % (x['l'], src, 'the main file' if i == 0 else 'included files', opt)), '%s:%s' % (f['file'], x['l']))
    # the enumerator: every readcondition() result that is added is tested with isUndefined or built with the undefined set
    en = []
    for x in sites:
        for g in F.resolve(f, x['fid']):
            if F.body(g) is not None and g not in en:
                en.append(g)
    if len(en) != 1:
        raise AnalysisBroken('configuration enumerator: %d definitions' % len(en))
    g = en[0]
    gbody = F.body(g)['body']
    # parameter that receives userUndefs: position of the argument reading it
    pos = None
    for i, a in enumerate(call_args(sites[0])):
        if field_reads(a, 'Settings::userUndefs'):
            pos = i
    if pos is None:
        return
    pname = g['params'][pos]['n']
    uses = [y for y in walk(gbody) if y.get('k') == 'DeclRefExpr' and y.get('dk') == 'ParmVar' and y.get('n') == pname]
    rc = [y for y in walk(gbody) if y.get('k') == 'CallExpr' and (y.get('fn') or '') == 'readcondition']
    rc_with = [y for y in rc if any(z.get('k') == 'DeclRefExpr' and z.get('dk') == 'ParmVar' and z.get('n') == pname for z in walk(y))]
    ctx.counts['R12.5 readcondition calls'] = len(rc)
    for i, y in enumerate(rc):
        ok = y in rc_with
        ctx.ob('R12.5', 'readcondition-undefined:%d' % i, ok, ('readcondition call %d receives the undefined set' % i) if ok else
               ('the configuration enumerator reads a condition at line %s without the set of -U macros: macros removed with -U become configurations' % y['l']),
               '%s:%s' % (g['file'], y['l']))
    ctx.floor('R12.5 uses of the undefined set in the enumerator', len(uses), 2)


def run(ctx):
    r12_1_2(ctx)
    r12_3(ctx)
    r12_4(ctx)
    r12_5(ctx)
    r12_6(ctx)
    r12_7(ctx)


# per-token state the "same code as another configuration" key must cover; one line of reason each (confirmed on the pinned tree)
PURGE_KEY = {
    'Token::str': 'the token text',
    'Token::varId': 'which declaration a name is bound to',
    'Token::tokType': 'the classification the checks branch on',
    'Token::flags': 'signedness, long-ness and attributes live only in the flag word after simplifyTokens1 (unsigned int -> int + fIsUnsigned)',
    'Token::originalName': 'the spelling of a simplified typedef / type name',
}


def r12_6(ctx):
    """R12.6  a configuration is skipped as "same code as an earlier one" only on a key that covers the per-token state the analysis reads: the key function
    (the calculateHash the configuration loop calls on the token list) reads, for every token, each accessor of the table PURGE_KEY.  Dropping one makes two
    configurations that differ only in that state collide, and the second one - with the code only it enables - is analysed in no configuration."""
    F = ctx.facts
    ctx.rule('R12.6', 'the key of the duplicate-configuration purge covers text, binding, classification, flags and original name of every token')
    f = F.one('CppCheck::checkInternal')
    body = F.body(f)['body']
    keyfns = []
    for x in walk(body):
        if x.get('k') == 'CXXMemberCallExpr' and (x.get('fn') or '').endswith('::calculateHash') and 'TokenList' in (x.get('fn') or ''):
            keyfns += [g for g in F.resolve(f, x['fid']) if F.body(g) is not None]
    if not keyfns:
        raise AnalysisBroken('CppCheck::checkInternal: no call of TokenList::calculateHash (duplicate-configuration key) found')
    g = keyfns[0]
    reach = F.reachable([g])
    called = set()
    for k, (h, _, _) in reach.items():
        if not h['file'].startswith('lib/'):
            continue
        b = F.body(h)
        if b is None:
            continue
        for y in walk(b['body']):
            if y.get('k') == 'CXXMemberCallExpr' and (y.get('fn') or '').startswith('Token::'):
                called.add(y['fn'])
    for acc, why in sorted(PURGE_KEY.items()):
        ok = acc in called
        ctx.ob('R12.6', 'purge-key:%s' % acc.split('::')[-1], ok, ('%s reads %s of every token' % (g['name'], acc)) if ok else
               ('%s, the key on which CppCheck::checkInternal skips a configuration as a duplicate, no longer reads %s (%s): two configurations that differ only there collide '
                'and the second one is analysed in no configuration' % (g['name'], acc, why)), '%s:%s' % (g['file'], g['line']))


def r12_7(ctx):
    """R12.7  the configuration enumerator keeps its condition stack balanced: the arm that handles #elif / #else replaces the top entry of the stack of
    enclosing conditions - on every path that reaches the end of the arm, the pop is followed by a push.  A path that pops without pushing lets the matching
    #endif pop the entry of the *enclosing* #ifdef, so guards that follow inside the outer block are enumerated without the outer macro and their region
    is analysed in no configuration."""
    F = ctx.facts
    ctx.rule('R12.7', 'the #elif/#else arm of the configuration enumerator pushes a replacement entry on every path that reaches its end')
    top = F.one('Preprocessor::getConfigs')
    en = None
    for x in walk(F.body(top)['body']):
        if x.get('k') == 'CallExpr' and (x.get('fn') or '').split('::')[-1] == 'getConfigs' and x.get('fid'):
            for g in F.resolve(top, x['fid']):
                if F.body(g) is not None:
                    en = g
    if en is None:
        raise AnalysisBroken('configuration enumerator not found')
    body = F.body(en)['body']
    arms = [x for x in walk(body) if x.get('k') == 'IfStmt' and x.get('cond') is not None and
            {'elif', 'else'} <= {y.get('v') for y in walk(x['cond']) if y.get('k') == 'StringLiteral'}]
    ctx.floor('R12.7 #elif/#else arms', len(arms), 1)
    for i, arm in enumerate(arms):
        then = arm.get('then') or {}
        pops = [y for y in walk(then) if y.get('k') == 'CXXMemberCallExpr' and (y.get('fn') or '').endswith('::pop_back')]
        stacks = set()
        for y in pops:
            for z in walk(y['c'][0]):
                if z.get('k') == 'DeclRefExpr' and z.get('dk') == 'Var':
                    stacks.add(z['di'])
        if len(stacks) != 1:
            raise AnalysisBroken('enumerator #else arm: %d stacks popped' % len(stacks))
        st = next(iter(stacks))

        def on_stack(y, names):
            return y.get('k') == 'CXXMemberCallExpr' and (y.get('fn') or '').rsplit('::', 1)[-1] in names and \
                any(z.get('k') == 'DeclRefExpr' and z.get('di') == st for z in walk(y['c'][0]))

        def gen(y):
            return ['pushed'] if on_stack(y, ('push_back', 'emplace_back')) else ()

        def kill(y):
            return ['pushed'] if on_stack(y, ('pop_back',)) else ()
        res = paths.analyse(then, gen=gen, kill=kill)
        ends = [(k, n, s) for k, n, s in res.exits if k == 'end']
        if not ends:
            raise AnalysisBroken('enumerator #else arm: end of the arm not reached by the analysis')
        ok = all('pushed' in s for _, _, s in ends)
        ctx.ob('R12.7', 'else-arm-balanced#%d' % i, ok, 'every path to the end of the #elif/#else arm pushes a replacement for the popped entry' if ok else
               ('the #elif/#else arm of the configuration enumerator (line %s) pops the entry of its #if and reaches its end on a path without a push: the matching #endif then pops the '
                'entry of the enclosing #ifdef and later guards of the outer block lose the outer macro' % arm['l']), '%s:%s' % (en['file'], arm['l']))
