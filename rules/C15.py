"""C15  Parallel execution reports what a single job reports (transfer encodings + common filter).

Decides: the inter-process encoding of a finding loses no field and both sides agree on the field
order and counts; every pipe signal has a writer, is accepted by the reader's validation and has a
handling branch; both executors send worker findings through hasToLog.  Equality of the reports
under every interleaving is not decided.

R15.1  ErrorMessage::serialize / deserialize agree:
       (i)   every data member of ErrorMessage is read by serialize and written by deserialize, or is written
             only by the parent-side logger StdLogger (who-writes query; today guideline and classification);
       (ii)  the k-th serializeString operand and the member restored from results[k] are the same member;
       (iii) number of serializeString calls before the stack == std::array size == loop bound == `elem != N`;
       (iv)  the k-th tab-separated part of a stack frame is restored into the FileLocation member it was
             taken from (through the constructor's member initialisers / setfile / the getters).
R15.2  every PipeWriter::PipeSignal enumerator is written somewhere, accepted by handleRead's validation and
       handled by a branch of handleRead.
R15.3  (sibling agreement) ProcessExecutor::handleRead and SyncLogForwarder::reportErr forward a worker's
       finding only under hasToLog(msg).
R15.5  sibling of R24.3: the parent / thread worker merges (add, else update) the suppression state each worker reports.
R15.4  Executor::hasToLog lets every Severity::internal message through (see internal_passthrough).
"""
import re
from .common.facts import walk, walk_parents, strip, strip_all, call_args, AnalysisBroken
from .common import paths



def fields_in(n, cls):
    out = []
    for y in walk(n):
        if y.get('k') == 'MemberExpr' and y.get('dk') == 'Field' and (y.get('n') or '').startswith(cls + '::') and (y.get('n') or '').count('::') == cls.count('::') + 1:
            f = y['n'].split('::')[-1]
            if f not in out:
                out.append(f)
    return out


def subscript_index(n, var_di):
    """results[k] / substrings[k] as operator[] call or ArraySubscriptExpr with a literal index on local var_di."""
    if n.get('k') == 'CXXOperatorCallExpr' and n.get('op') == '[]' and len(n.get('c', ())) >= 3:
        base, idx = strip(n['c'][1]), strip(n['c'][2])
        while base is not None and base.get('k') in ('ImplicitCastExpr',) and base.get('c'):
            base = base['c'][0]
        if base is not None and base.get('di') == var_di and idx is not None and idx.get('k') == 'IntegerLiteral':
            return int(idx['v'])
    return None


def run(ctx):
    F = ctx.facts
    for rid, t in [('R15.1', 'ErrorMessage::serialize and deserialize agree on fields, order and counts'),
                   ('R15.2', 'every pipe signal has a writer, passes validation and has a handler'),
                   ('R15.3', 'both executors filter worker findings through hasToLog')]:
        ctx.rule(rid, t)

    ser = F.one('ErrorMessage::serialize')
    des = F.one('ErrorMessage::deserialize')
    sb = F.body(ser)['body']
    db = F.body(des)['body']
    rec = F.recs['ErrorMessage']
    members = [f['n'] for f in rec['fields']]
    ctx.floor('R15.1 data members of ErrorMessage', len(members), 10)

    # ---- (i) ------------------------------------------------------------------------------------------------
    read_by_ser = {a['n'].split('::')[-1] for a in ser['acc'] if a['n'].startswith('ErrorMessage::') and a['n'].count('::') == 1}
    written_by_des = {a['n'].split('::')[-1] for a in des['acc'] if a['n'].startswith('ErrorMessage::') and a['n'].count('::') == 1 and a['a'] != 'r'}
    for m in members:
        where = '%s:%s' % (rec['file'], next(f['l'] for f in rec['fields'] if f['n'] == m))
        ok = m in read_by_ser and m in written_by_des
        if not ok:
            # a member outside the encoding is harmless only if no code that runs in a worker writes it
            writers = sorted({f['name'] for f in F.all_fns() for a in f['acc'] if a['n'] == 'ErrorMessage::' + m and a['a'] != 'r'
                              and f['name'] not in ('ErrorMessage::deserialize',)})
            parent_only = all(w.startswith('StdLogger::') for w in writers)
            if parent_only:
                ctx.ob('R15.1', 'member:%s' % m, True, 'ErrorMessage::%s is outside the encoding and is written only by %s (parent side, after transfer)'
                       % (m, ', '.join(writers) or 'nobody'), where)
                continue
            ctx.ob('R15.1', 'member:%s' % m, False,
                   'ErrorMessage::%s is %s but is written by %s: the value set in a worker process does not reach the parent, so the process executor reports '
                   'differently from a single job' % (m, 'not read by serialize()' if m not in read_by_ser else 'not assigned by deserialize()', ', '.join(writers)), where)
            continue
        ctx.ob('R15.1', 'member:%s' % m, True, 'ErrorMessage::%s is serialized and restored' % m, where)

    # ---- (ii)+(iii) -------------------------------------------------------------------------------------------
    # writer sequence: serializeString calls that are direct statements of the function body (before the frame loop)
    locals_init = {}
    for x in walk(sb):
        if x.get('k') == 'VarDecl' and x.get('init') is not None:
            locals_init[x['di']] = x['init']
    wseq = []
    for st in sb.get('c', ()):
        s0 = strip(st)
        if s0.get('k') == 'CallExpr' and s0.get('fn') == 'serializeString':
            arg = call_args(s0)[1]
            fs = fields_in(arg, 'ErrorMessage')
            if not fs:
                for y in walk(arg):
                    if y.get('k') == 'DeclRefExpr' and y.get('di') in locals_init:
                        fs = fields_in(locals_init[y['di']], 'ErrorMessage')
            wseq.append((s0['l'], fs))
            lossy = [y.get('fn') for y in walk(arg) if y.get('k') in ('CallExpr', 'CXXMemberCallExpr') and (y.get('fn') or '').endswith('fixInvalidChars')]
            src = arg
            if not lossy:
                for y in walk(arg):
                    if y.get('k') == 'DeclRefExpr' and y.get('di') in locals_init:
                        lossy = [z.get('fn') for z in walk(locals_init[y['di']]) if z.get('k') in ('CallExpr', 'CXXMemberCallExpr') and (z.get('fn') or '').endswith('fixInvalidChars')]
            if fs:
                ctx.ob('R15.1', 'lossless:%s' % fs[0], not lossy,
                       ('ErrorMessage::%s is transferred unchanged' % fs[0]) if not lossy else
                       ('serialize() passes ErrorMessage::%s through fixInvalidChars before it is sent: every byte outside printable ASCII arrives as an octal escape, so the process '
                        'executor prints a different text than a single job or the thread executor for the same finding (the framing is length-prefixed and needs no escaping)' % fs[0]),
                       '%s:%s' % (ser['file'], s0['l']))
    results = None
    arr_n = None
    for x in walk(db):
        if x.get('k') == 'VarDecl' and (x.get('t') or '').startswith('std::array<'):
            results = x['di']
            m = re.search(r',\s*(\d+)>', x['t'])
            arr_n = int(m.group(1)) if m else None
    if results is None:
        raise AnalysisBroken('deserialize: std::array of parts not found')
    rmap = {}
    for st in db.get('c', ()):
        ks = {subscript_index(y, results) for y in walk(st)} - {None}
        if st.get('k') in ('WhileStmt', 'ForStmt', 'DoStmt'):
            continue
        for k in ks:
            rmap.setdefault(k, [])
            for f in fields_in(st, 'ErrorMessage'):
                if f not in rmap[k]:
                    rmap[k].append(f)
    ctx.floor('R15.1 serializeString operands', len(wseq), 8)
    for k, (line, fs) in enumerate(wseq):
        rf = rmap.get(k, [])
        ok = len(fs) == 1 and rf == fs
        ctx.ob('R15.1', 'slot:%d' % k, ok, ('slot %d carries ErrorMessage::%s on both sides' % (k, fs[0])) if ok else
               ('slot %d: serialize() writes %s (line %s) but deserialize() restores results[%d] into %s' % (k, fs or '?', line, k, rf or 'nothing')),
               '%s:%s' % (ser['file'], line))
    for k in sorted(rmap):
        if k >= len(wseq):
            ctx.ob('R15.1', 'slot:%d' % k, False, 'deserialize() reads results[%d] but serialize() writes only %d strings before the stack' % (k, len(wseq)),
                   '%s:%d' % (des['file'], des['line']))
    # counts
    lits = []
    elem = None
    for x in walk(db):
        if x.get('k') == 'VarDecl' and x.get('n') == 'elem':
            elem = x['di']
    for x in walk(db):
        if x.get('k') == 'BinaryOperator' and x.get('op') in ('<', '!=', '==', '<=') and strip(x['c'][0]).get('di') == elem and elem is not None:
            r = strip(x['c'][1])
            if r.get('k') == 'IntegerLiteral':
                lits.append((x['op'], int(r['v']), x['l']))
    ok = arr_n == len(wseq) and len(lits) >= 2 and all(v == len(wseq) for _, v, _ in lits)
    ctx.ob('R15.1', 'counts', ok, ('writer emits %d strings; reader array size, loop bound and completeness test all use %d' % (len(wseq), len(wseq))) if ok else
           ('writer emits %d strings before the stack, reader uses std::array size %s and bounds %s' % (len(wseq), arr_n, lits)), '%s:%d' % (des['file'], des['line']))

    # ---- (iv) frames ----------------------------------------------------------------------------------------------
    FL = 'ErrorMessage::FileLocation'
    getter_field = {}
    for m in ('getfile', 'getOrigFile', 'getinfo'):
        g = F.one(FL + '::' + m)
        fs = sorted({a['n'].split('::')[-1] for a in g['acc'] if a['n'].startswith(FL + '::')})
        getter_field[FL + '::' + m] = fs
    frame_w = []
    frame_rhs = {}
    loop = next((st for st in sb.get('c', ()) if st.get('k') in ('ForStmt', 'CXXForRangeStmt', 'WhileStmt')), None)
    if loop is None:
        raise AnalysisBroken('serialize: frame loop not found')
    for x in walk(loop):
        if x.get('k') == 'CXXOperatorCallExpr' and x.get('op') == '+=':
            rhs = x['c'][2]
            r0 = strip_all(rhs)
            if r0.get('k') == 'CharacterLiteral' or (r0.get('k') == 'StringLiteral'):
                continue
            f = None
            for y in walk(rhs):
                if y.get('k') == 'MemberExpr' and y.get('dk') == 'Field' and (y.get('n') or '').startswith(FL + '::'):
                    f = [y['n'].split('::')[-1]]
                if y.get('k') == 'CXXMemberCallExpr' and y.get('fn') in getter_field:
                    f = getter_field[y['fn']]
            if f:
                frame_w.append((x['l'], f))
                frame_rhs[len(frame_w) - 1] = rhs
    # reader: constructor call with substrings[k] args, later setfile(substrings[k])
    subs = None
    for x in walk(db):
        if x.get('k') == 'VarDecl' and x.get('n') == 'substrings':
            subs = x['di']
    local_from = {}   # local var -> substrings index it was moved from
    for x in walk(db):
        if x.get('k') == 'CXXOperatorCallExpr' and x.get('op') == '=' and strip(x['c'][1]).get('k') == 'DeclRefExpr':
            ks = {subscript_index(y, subs) for y in walk(x['c'][2])} - {None}
            if len(ks) == 1:
                local_from[strip(x['c'][1])['di']] = ks.pop()
    frame_r = {}
    ctor = None
    for x in walk(db):
        if x.get('k') in ('CXXConstructExpr', 'CXXTemporaryObjectExpr') and x.get('cls') == FL and len([a for a in x.get('c', ()) if a.get('k') != 'DefaultArg']) >= 3:
            ctor = x
    if ctor is None:
        raise AnalysisBroken('deserialize: FileLocation construction not found')
    cf = F.fns.get(ctor.get('fid')) or []
    cdef = next((f for f in cf if F.body(f) is not None), None)
    if cdef is None:
        raise AnalysisBroken('FileLocation constructor body not found: %s' % ctor.get('fid'))
    cb = F.body(cdef)
    params = [p['n'] for p in cdef.get('params', [])] if cdef.get('params') else None
    pidx = {}
    for i, a in enumerate(ctor['c']):
        ks = {subscript_index(y, subs) for y in walk(a)} - {None}
        if not ks:
            for y in walk(a):
                if y.get('k') == 'DeclRefExpr' and y.get('di') in local_from:
                    ks = {local_from[y['di']]}
        if len(ks) == 1:
            pidx[i] = ks.pop()
    for ini in cb.get('inits', ()):
        fld = (ini.get('n') or ini.get('field') or '').split('::')[-1]
        for y in walk(ini.get('init') or {}):
            if y.get('k') == 'DeclRefExpr' and y.get('dk') == 'ParmVar':
                pi = y.get('pi')
                if pi is None and params:
                    pi = params.index(y['n']) if y['n'] in params else None
                if pi in pidx:
                    frame_r[fld] = pidx[pi]
    for x in walk(db):
        if x.get('k') == 'CXXMemberCallExpr' and x.get('fn') == FL + '::setfile':
            ks = {subscript_index(y, subs) for y in walk(x)} - {None}
            sf = F.one(FL + '::setfile')
            wf = sorted({a['n'].split('::')[-1] for a in sf['acc'] if a['n'].startswith(FL + '::') and a['a'] != 'r'})
            if len(ks) == 1 and len(wf) == 1:
                frame_r[wf[0]] = ks.pop()
    ctx.floor('R15.1 frame parts written', len(frame_w), 5)
    for k, (line, f) in enumerate(frame_w):
        ok = len(f) == 1 and frame_r.get(f[0]) == k
        ctx.ob('R15.1', 'frame:%d' % k, ok, ('frame part %d carries FileLocation::%s on both sides' % (k, f[0])) if ok else
               ('frame part %d is taken from FileLocation::%s (line %s) but the reader restores that member from part %s (reader map: %s)'
                % (k, '/'.join(f), line, frame_r.get(f[0]) if len(f) == 1 else '?', frame_r)), '%s:%s' % (ser['file'], line))
    # every FileLocation member is carried (fileIndex is derived state and not part of a finding's text)
    frec = F.recs[FL]
    for fld in frec['fields']:
        if fld['n'] == 'fileIndex':
            ctx.note('FileLocation::fileIndex is not transferred (index into the worker\'s token list file table; not read by any output format)')
            continue
        ok = any(f == [fld['n']] for _, f in frame_w)
        ctx.ob('R15.1', 'frame-member:%s' % fld['n'], ok, ('FileLocation::%s is part of the frame encoding' % fld['n']) if ok else
               ('FileLocation::%s is not written by serialize(): locations differ between -j1 and the process executor' % fld['n']), '%s:%s' % (frec['file'], fld['l']))

    # ---- R15.7 the last frame part is free text: the reader must take the remainder, not split at every separator ----------
    ctx.rule('R15.7', 'the reader of a call-stack frame takes the last part (free text that may contain the separator) as the remainder of the frame')
    decl = next((x for x in walk(db) if x.get('k') == 'VarDecl' and x.get('di') == subs), None)
    if decl is None:
        raise AnalysisBroken('deserialize: container of the frame parts not found')
    splitter = [y.get('fn') for y in walk(decl.get('init') or {}) if y.get('k') == 'CallExpr' and y.get('fn') and not y['fn'].startswith('std::')]
    for x in walk(db):
        if x.get('k') == 'CXXOperatorCallExpr' and x.get('op') == '=' and strip_all(x['c'][1]).get('di') == subs:
            splitter += [y.get('fn') for y in walk(x['c'][2]) if y.get('k') == 'CallExpr' and y.get('fn') and not y['fn'].startswith('std::')]
    remainder = []
    for x in walk(db):
        if x.get('k') == 'CXXMemberCallExpr' and (x.get('fn') or '').rsplit('::', 1)[-1] in ('push_back', 'emplace_back') and \
                any(y.get('k') == 'DeclRefExpr' and y.get('di') == subs for y in walk(x['c'][0])):
            for y in walk(x):
                if y.get('k') == 'CXXMemberCallExpr' and (y.get('fn') or '').endswith('::substr') and \
                        len([a for a in y['c'][1:] if strip_all(a).get('k') != 'DefaultArg']) == 1:
                    remainder.append(y['l'])
    # a splitter with a limit argument whose body takes the remainder (one-argument substr) is the same idiom moved into a helper
    bounded = []
    for x in walk(db):
        if x.get('k') == 'CallExpr' and x.get('fn') in splitter and x.get('fid'):
            has_limit = any(strip_all(a).get('k') == 'IntegerLiteral' or (strip_all(a).get('t') or '').replace('const ', '') in ('int', 'unsigned int', 'std::size_t', 'unsigned long', 'size_t')
                            for a in x['c'][1:])
            for g in F.fns.get(x['fid'], []):
                gb = F.body(g)
                if has_limit and gb is not None and any(y.get('k') == 'CXXMemberCallExpr' and (y.get('fn') or '').endswith('::substr') and
                                                        len([a for a in y['c'][1:] if strip_all(a).get('k') != 'DefaultArg']) == 1 for y in walk(gb['body'])):
                    bounded.append(x['fn'])
    if splitter and set(splitter) <= set(bounded):
        splitter, remainder = [], remainder or [decl['l']]
    ok = bool(remainder) and not splitter
    lastf = frame_w[-1][1][0] if frame_w and len(frame_w[-1][1]) == 1 else '?'
    ctx.ob('R15.7', 'frame-remainder', ok, ('the last frame part (FileLocation::%s) is taken as the remainder of the frame (substr with one argument, line %s)' % (lastf, remainder[0])) if ok else
           ('ErrorMessage::deserialize splits a call-stack frame at every separator (%s): the last part, FileLocation::%s, is free text that may contain the separator, so the text after '
            'its first separator is lost when a finding crosses the worker pipe' % (('through ' + ', '.join(splitter)) if splitter else 'no part is taken as remainder', lastf)),
           '%s:%s' % (des['file'], decl['l']))

    # ---- R15.8 separator-joined parts before the last one must not be able to contain the separator ------------------------
    ctx.rule('R15.8', 'every part of a call-stack frame except the last is separator-free by construction (a number)')
    for k, (line, f) in enumerate(frame_w[:-1]):
        rhs = frame_rhs.get(k)
        numeric = rhs is not None and any(y.get('k') == 'CallExpr' and (y.get('fn') or '') in ('std::to_string',) for y in walk(rhs))
        ctx.ob('R15.8', 'frame-part-separator-free:%s' % '/'.join(f), numeric, ('frame part %d (%s) is written through std::to_string' % (k, '/'.join(f))) if numeric else
               ('frame part %d (FileLocation::%s, line %s) is free text joined with a tab separator and is not the last part: a tab inside it shifts every later part when the frame is split, '
                'so the process executor reports a different location than a single job' % (k, '/'.join(f), line)), '%s:%s' % (ser['file'], line))

    # ---- R15.2 ------------------------------------------------------------------------------------------------------
    en = next((e for name, e in F.enums.items() if name.endswith('PipeWriter::PipeSignal')), None)
    if en is None:
        raise AnalysisBroken('enum PipeWriter::PipeSignal not found')
    hr = F.one('ProcessExecutor::handleRead')
    hb = F.body(hr)['body']
    enumerators = [e['n'] if isinstance(e, dict) else e for e in en.get('enumerators', en.get('values', []))]
    ctx.floor('R15.2 pipe signals', len(enumerators), 6)
    written = set()
    for f in F.all_fns():
        if not f['file'].endswith('processexecutor.cpp'):
            continue
        b = F.body(f)
        if b is None:
            continue
        for x in walk(b['body']):
            if x.get('k') == 'CXXMemberCallExpr' and (x.get('fn') or '').endswith('PipeWriter::writeToPipe'):
                for y in walk(call_args(x)[0]):
                    if y.get('dk') == 'EnumConstant':
                        written.add(y['n'].split('::')[-1])
    validated, handled = set(), set()
    for x in walk(hb):
        if x.get('k') == 'BinaryOperator' and x.get('op') in ('!=', '=='):
            names = [y['n'].split('::')[-1] for y in walk(x) if y.get('dk') == 'EnumConstant']
            for nme in names:
                (validated if x['op'] == '!=' else handled).add(nme)
    vals = {}
    for e in en.get('values', en.get('enumerators', [])):
        if isinstance(e, dict):
            vals[e['n']] = e.get('v')
    for e in enumerators:
        ok = e in written and e in validated and e in handled
        ctx.ob('R15.2', 'signal:%s' % e, ok, ('%s is written, accepted by the type validation and handled' % e) if ok else
               ('PipeSignal %s is %s: a worker message of this kind %s' % (
                   e, ', '.join(w for w, c in (('never written', e not in written), ('rejected by handleRead\'s validation', e not in validated),
                                               ('not handled by any branch', e not in handled)) if c),
                   'aborts the parent' if e not in validated else 'is silently dropped')), '%s:%d' % (hr['file'], hr['line']))
    if vals:
        dup = [v for v in set(vals.values()) if list(vals.values()).count(v) > 1]
        ctx.ob('R15.2', 'signal-values-distinct', not dup, 'all pipe signal values are distinct' if not dup else 'two pipe signals share the value %s' % dup,
               '%s:%d' % (hr['file'], hr['line']))

    # ---- R15.3 ------------------------------------------------------------------------------------------------------
    n = 0
    for name in ('ProcessExecutor::handleRead', 'SyncLogForwarder::reportErr'):
        f = F.one(name)
        b = F.body(f)['body']

        def cond(nn, truth):
            n0 = strip(nn)
            if n0 is not None and n0.get('k') == 'CXXMemberCallExpr' and (n0.get('fn') or '').endswith('::hasToLog'):
                return (('hasToLog', truth),)
            return ()
        r = paths.analyse(b, cond=cond, observe=lambda x: x.get('k') == 'CXXMemberCallExpr' and x.get('fn') == 'ErrorLogger::reportErr')
        sites = list(r.at.items())
        if not sites:
            ctx.ob('R15.3', 'gate:%s' % name, False, '%s no longer forwards findings to the logger' % name, '%s:%d' % (f['file'], f['line']))
        for i, st in sites:
            n += 1
            ok = ('hasToLog', True) in st
            ctx.ob('R15.3', 'gate:%s' % name, ok, ('%s forwards a worker finding only under hasToLog(msg)' % name) if ok else
                   ('%s forwards a worker finding at line %s without hasToLog(msg): duplicates/suppressed findings are shown with this executor only'
                    % (name, r.at_node[i]['l'])), '%s:%s' % (f['file'], r.at_node[i]['l']))
    ctx.floor('R15.3 forwarding sites', n, 2)
    from .C24 import add_or_merge
    ctx.rule('R15.5', 'suppression state reported by several workers is merged, not first-wins')
    for fn_ in (F.one('ProcessExecutor::handleRead'), F.one('ThreadData::check')):
        ok, why, line = add_or_merge(F, fn_)
        ctx.ob('R15.5', 'merge:%s' % fn_['name'], ok, ('%s merges the state of a suppression that is already known' % fn_['name']) if ok else
               ('%s: %s - with several jobs the unmatched-suppression report depends on which worker finishes first' % (fn_['name'], why)), '%s:%s' % (fn_['file'], line or fn_['line']))
    r15_6(ctx)
    ctx.rule('R15.4', 'internal messages (addon summaries, checker log) pass the executors\' gate unfiltered')
    internal_passthrough(ctx, 'R15.4')


def internal_passthrough(ctx, rule):
    """Severity::internal messages (ctuinfo addon summaries, logChecker lines) must pass the executors' gate
    unconditionally: they carry whole-program data, are not findings, and identical ones are not duplicates.
    In Executor::hasToLog every return that can be reached with severity == internal returns literal true
    (sibling of CppCheckLogger::reportErr, which forwards internal messages before any filter)."""
    F = ctx.facts
    h = F.one('Executor::hasToLog')
    b = F.body(h)['body']

    def cond(n, truth):
        n0 = strip(n)
        if n0 is not None and n0.get('k') == 'BinaryOperator' and n0.get('op') in ('==', '!=') and any(y.get('n') == 'Severity::internal' for y in walk(n0)) and \
                any(y.get('k') == 'MemberExpr' and y.get('n') == 'ErrorMessage::severity' for y in walk(n0)):
            return (('internal', (n0['op'] == '==') == truth),)
        return ()
    r = paths.analyse(b, cond=cond, observe=lambda n: n.get('k') == 'ReturnStmt')
    rets = [(n, st) for kind, n, st in r.exits if kind == 'return']
    if not rets:
        raise AnalysisBroken('Executor::hasToLog: no return statements seen')
    tested = any(('internal', True) in st or ('internal', False) in st for n, st in rets)
    bad = []
    for n, st in rets:
        if ('internal', False) in st:
            continue
        v = strip(n['c'][0]) if n.get('c') else None
        if not (v is not None and v.get('k') == 'CXXBoolLiteralExpr' and v.get('v') is True):
            bad.append(n['l'])
    ok = tested and not bad
    ctx.ob(rule, 'internal-passthrough', ok,
           'Executor::hasToLog returns true for every Severity::internal message before any suppression or duplicate filter' if ok else
           ('Executor::hasToLog can return a filtered verdict for a Severity::internal message (return at line(s) %s reachable with severity == internal): identical '
            'ctuinfo summaries of different files are dropped as duplicates with -j2 and more, so whole-program addon analysis sees fewer summaries than with -j1'
            % bad) if tested else 'Executor::hasToLog no longer tests for Severity::internal', '%s:%d' % (h['file'], h['line']))


def r15_6(ctx):
    """R15.6  one notion of "the same finding": a finding passes up to three duplicate filters - CppCheckLogger::reportErr (per file), Executor::hasToLog (messages of
    workers, only with several jobs) and StdLogger::reportErr (whole run).  A single job uses the first and third, several jobs all three.  The three filters must key
    on the same rendering of the message (ErrorMessage::toString with the same Settings members), otherwise two findings that are distinct for one job are duplicates
    for several jobs or vice versa."""
    F = ctx.facts
    ctx.rule('R15.6', 'the duplicate filters of the logger, the executors and the final logger key on the same rendering')
    sites = {}
    for name in ('CppCheck::CppCheckLogger::reportErr', 'Executor::hasToLog', 'StdLogger::reportErr'):
        cands = [f for f in F.find(name) if F.body(f) is not None and any(c['f'].startswith('ErrorMessage::toString(') for c in f['calls'])]
        if len(cands) != 1:
            raise AnalysisBroken('%s: %d definitions that render the message' % (name, len(cands)))
        f = cands[0]
        body = F.body(f)['body']
        inits = {v['di']: v['init'] for v in walk(body) if v.get('k') == 'VarDecl' and v.get('init') is not None}
        for x in walk(body):
            if x.get('k') == 'CXXMemberCallExpr' and x.get('fn') == 'ErrorMessage::toString':
                sig = []
                for a in call_args(x):
                    flds = sorted({y['n'] for y in walk(a) if y.get('k') == 'MemberExpr' and (y.get('n') or '').startswith('Settings::')})
                    if not flds:
                        for y in walk(a):
                            if y.get('k') == 'DeclRefExpr' and y.get('di') in inits:
                                flds = sorted({z['n'] for z in walk(inits[y['di']]) if z.get('k') == 'MemberExpr' and (z.get('n') or '').startswith('Settings::')})
                    if flds:
                        sig.append('+'.join(flds))
                    else:
                        a0 = strip_all(a)
                        sig.append('literal:%r' % a0.get('v') if a0.get('k') == 'StringLiteral' else ('global:%s' % a0.get('n') if a0.get('k') == 'DeclRefExpr' else a0.get('k')))
                sites[name] = (tuple(sig), f, x['l'])
    ctx.floor('R15.6 duplicate filters', len(sites), 3)
    ref = sites['CppCheck::CppCheckLogger::reportErr'][0]
    for name, (sig, f, line) in sites.items():
        ok = sig == ref
        ctx.ob('R15.6', 'dedup-key:%s' % name, ok, ('%s renders the key with %s' % (name, list(sig))) if ok else
               ('%s keys its duplicate filter on toString(%s) while the per-file filter of CppCheckLogger::reportErr uses toString(%s): findings that differ only in what one '
                'rendering omits (secondary locations, columns ...) are dropped with several jobs and kept with one job, or the other way round' % (name, ', '.join(sig), ', '.join(ref))),
               '%s:%s' % (f['file'], line))
