"""C32  Compilation-database import reproduces the compiler's options  (partial: both entry forms use one parser; every option category is carried to the per-file settings).

Decides (structural necessary conditions; the text-level behaviour of the option parser on arbitrary command lines is not decided):

R32.1  In ImportProject::importCompileCommands every FileSettings appended to the project has passed through the argument parser
       (ImportProject::parseArgs) with the entry's argument vector, and that vector is filled on the "arguments" branch as well as on the
       "command" branch (sibling agreement of the two entry forms: one parser, no second option scanner).
R32.2  Option table, verified against the parser on every run: for each category the property names (-I include paths, -D definitions,
       -U undefinitions, -std language standard) the parser branch that tests the option literal stores into a FileSettings member
       (directly, or through a local that a later call stores), and CppCheck::check(const FileSettings&) transfers that member into the
       Settings member the analysis reads (includePaths -> Settings::includePaths, defines -> Settings::userDefines, undefs ->
       Settings::userUndefs, standard -> Settings::standards) on every path to the construction of the per-file CppCheck.

Not decided: shell unquoting (collectArgs), option spelling variants, relative-path resolution, "and no others".
"""
from .common.facts import walk, children, strip_all, call_args, AnalysisBroken
from .common import paths

TABLE = [
    # option literals, FileSettings member, Settings member, what
    (('-I', '/I'), 'FileSettings::includePaths', 'Settings::includePaths', 'include paths'),
    (('-D', '/D'), 'FileSettings::defines', 'Settings::userDefines', 'macro definitions'),
    (('-U', '/U'), 'FileSettings::undefs', 'Settings::userUndefs', 'undefinitions'),
    (('-std=', '/std:'), 'FileSettings::standard', 'Settings::standards', 'language standard'),
]


def lits(n):
    return {y.get('v') for y in walk(n) if y.get('k') == 'StringLiteral'}


def fs_writes(F, fn, depth=2, seen=None):
    seen = seen if seen is not None else set()
    out = set()
    if F.key(fn) in seen:
        return out
    seen.add(F.key(fn))
    for a in fn['acc']:
        if a['n'].startswith('FileSettings::') and a['a'] not in ('r', 'a'):
            out.add(a['n'])
    if depth:
        for g, _ in F.callees(fn):
            if g['file'].startswith('lib/'):
                out |= fs_writes(F, g, depth - 1, seen)
    return out


def r32_1(ctx):
    F = ctx.facts
    ctx.rule('R32.1', 'every compilation-database entry, in either form, is parsed by ImportProject::parseArgs before it is added to the project')
    f = F.one('ImportProject::importCompileCommands')
    body = F.body(f)['body']
    parser = F.one('ImportProject::parseArgs')

    def is_push(x):
        return x.get('k') == 'CXXMemberCallExpr' and (x.get('fn') or '').rsplit('::', 1)[-1] in ('push_back', 'emplace_back') and \
            any(y.get('k') == 'MemberExpr' and y.get('n') == 'ImportProject::fileSettings' for y in walk(x['c'][0]))

    def gen(x):
        if x.get('k') == 'CallExpr' and x.get('fid') and any(g['id'] == parser['id'] for g in F.resolve(f, x['fid'])):
            a = call_args(x)
            v = [y for y in walk(a[0]) if y.get('k') == 'DeclRefExpr' and y.get('dk') == 'Var'] if a else []
            w = [y for y in walk(a[1]) if y.get('k') == 'DeclRefExpr' and y.get('dk') == 'Var'] if len(a) > 1 else []
            return ['parsed:%s' % v[0]['di']] + (['args:%s' % w[0]['di']] if w else []) if v else ()
        return ()
    res = paths.Must(gen=gen, observe=is_push).run(body)
    n = 0
    argvars = set()
    for i, s in res.at.items():
        node = res.at_node[i]
        a = call_args(node)
        v = [y for y in walk(a[0]) if y.get('k') == 'DeclRefExpr' and y.get('dk') == 'Var'] if a else []
        n += 1
        ok = bool(v) and ('parsed:%s' % v[0]['di']) in s
        ctx.ob('R32.1', 'entry-parsed#%d' % n, ok, 'the FileSettings appended at line %s has been filled by parseArgs' % node['l'] if ok else
               ('ImportProject::importCompileCommands appends a FileSettings at line %s that has not passed through ImportProject::parseArgs on every path: the options of the entry are ignored'
                % node['l']), '%s:%s' % (f['file'], node['l']))
    ctx.floor('R32.1 appends to the project', n, 1)
    for x in walk(body):
        argvars |= {l.split(':', 1)[1] for l in gen(x) if l.startswith('args:')}
    if not argvars:
        raise AnalysisBroken('importCompileCommands: argument vector of parseArgs not found')
    for key in ('arguments', 'command'):
        # the branch that tests obj.count("<key>") fills the argument vector
        brs = [x for x in walk(body) if x.get('k') == 'IfStmt' and x.get('cond') is not None and key in lits(x['cond'])]
        ok = False
        where = f['line']
        for br in brs:
            where = br['l']
            for y in walk(br.get('then') or {}):
                if y.get('k') in ('CXXMemberCallExpr', 'CallExpr', 'CXXOperatorCallExpr'):
                    tgt = [z for a in ([y['c'][0]] if y.get('k') == 'CXXMemberCallExpr' else []) + call_args(y) for z in walk(a)
                           if z.get('k') == 'DeclRefExpr' and z.get('di') in argvars and 'const' not in (z.get('t') or '')]
                    if tgt and (y.get('k') != 'CXXMemberCallExpr' or (y.get('fn') or '').rsplit('::', 1)[-1] in ('push_back', 'emplace_back', 'assign', 'insert', 'operator=')
                                or any(z.get('di') in argvars for a in call_args(y) for z in walk(a))):
                        ok = True
        ctx.ob('R32.1', 'entry-form:%s' % key, ok, 'the "%s" form fills the argument vector handed to parseArgs' % key if ok else
               ('ImportProject::importCompileCommands: the branch for the "%s" form of an entry does not fill the argument vector that parseArgs receives: entries of that form '
                'are analysed without their options' % key), '%s:%s' % (f['file'], where))


def r32_2(ctx):
    F = ctx.facts
    ctx.rule('R32.2', 'each option category (-I, -D, -U, -std) is stored by its parser branch and transferred to the per-file Settings')
    parser = F.one('ImportProject::parseArgs')
    pbody = F.body(parser)['body']
    cands = [g for g in F.find('CppCheck::check') if 'FileSettings' in g['id'] and F.body(g) is not None]
    if len(cands) != 1:
        raise AnalysisBroken('CppCheck::check(const FileSettings&): %d definitions' % len(cands))
    chk = cands[0]
    cbody = F.body(chk)['body']
    # locals later stored by a call:  local -> FileSettings members written by calls that take the local
    stored = {}
    for x in walk(pbody):
        if x.get('k') == 'CallExpr' and x.get('fid'):
            ws = set()
            for g in F.resolve(parser, x['fid']):
                if g['file'].startswith('lib/'):
                    ws |= fs_writes(F, g)
            if ws:
                for a in call_args(x):
                    for y in walk(a):
                        if y.get('k') == 'DeclRefExpr' and y.get('dk') == 'Var':
                            stored.setdefault(y['di'], set()).update(ws)
    for opts, member, target, what in TABLE:
        brs = [x for x in walk(pbody) if x.get('k') == 'IfStmt' and x.get('cond') is not None and (lits(x['cond']) & set(opts))]
        if not brs:
            ctx.ob('R32.2', 'option-stored:%s' % opts[0], False, 'ImportProject::parseArgs has no branch for %s (%s)' % (opts[0], what), '%s:%s' % (parser['file'], parser['line']))
            continue
        ok = False
        for br in brs:
            for y in walk(br.get('then') or {}):
                if y.get('k') == 'MemberExpr' and y.get('n') == member and (y.get('a') or 'r') not in ('r', 'a'):
                    ok = True
                if y.get('k') in ('CXXOperatorCallExpr', 'BinaryOperator', 'CompoundAssignOperator') and (y.get('op') or '') in ('=', '+='):
                    ops = call_args(y) if y.get('k') == 'CXXOperatorCallExpr' else y['c']
                    l = strip_all(ops[0]) if ops else {}
                    if l.get('k') == 'DeclRefExpr' and member in stored.get(l.get('di'), ()):
                        ok = True
        ctx.ob('R32.2', 'option-stored:%s' % opts[0], ok, ('the %s branch of parseArgs stores into %s' % (opts[0], member)) if ok else
               ('ImportProject::parseArgs: the branch for %s does not store into %s (neither directly nor through a local that a later call stores): %s of a compilation-database '
                'entry are dropped' % ('/'.join(opts), member, what)), '%s:%s' % (parser['file'], brs[0]['l']))

        # transfer in check(const FileSettings&)
        def reads_member(n):
            for y in walk(n):
                if y.get('k') == 'MemberExpr' and y.get('n') == member:
                    return True
                if y.get('k') == 'CXXMemberCallExpr' and (y.get('fn') or '').startswith('FileSettings::'):
                    for g in F.find(y['fn']):
                        if any(a['n'] == member for a in g['acc']):
                            return True
            return False

        def gen(n):
            if n.get('k') in ('CXXOperatorCallExpr', 'CXXMemberCallExpr', 'CallExpr', 'BinaryOperator', 'CompoundAssignOperator'):
                w = any(y.get('k') == 'MemberExpr' and y.get('n') == target and (y.get('a') or 'r') not in ('r', 'a') for y in walk(n))
                if w and reads_member(n):
                    return ['t']
            return ()

        def cond(n, truth):
            # `if (!fs.standard.empty())`-style guards: the transfer is only needed when the entry gave a value
            if reads_member(n):
                return ['guard:%s' % ('T' if truth else 'F')]
            return ()

        def observe(n):
            return n.get('k') == 'CXXConstructExpr' and (n.get('cls') or '') == 'CppCheck' or \
                (n.get('k') == 'VarDecl' and (n.get('t') or '').replace('const ', '') == 'CppCheck')
        res = paths.Must(gen=gen, observe=observe).run(cbody)
        sites = [(res.at_node[i], s) for i, s in res.at.items()]
        if not sites:
            raise AnalysisBroken('CppCheck::check(const FileSettings&): construction of the per-file CppCheck not found')
        # transfers under a guard on the member itself (empty / Unspecified test) count: find guarded transfers syntactically
        guarded = False
        for x in walk(cbody):
            if x.get('k') == 'IfStmt' and x.get('cond') is not None and reads_member(x['cond']):
                if any(gen(y) for y in walk(x.get('then') or {})) and (x.get('else') is None or any(gen(y) for y in walk(x['else'])) or
                                                                          (x['else'].get('k') == 'IfStmt' and reads_member(x['else'].get('cond') or {}))):
                    guarded = True
        bad = [n for n, s in sites if 't' not in s]
        ok = not bad or guarded
        ctx.ob('R32.2', 'option-transferred:%s' % member.split('::')[-1], ok, ('check(const FileSettings&) transfers %s into %s before every per-file CppCheck is built' % (member, target)) if ok else
               ('CppCheck::check(const FileSettings&) builds the per-file CppCheck at line %s without having transferred %s into %s: the %s of the compilation-database entry do not '
                'reach the analysis' % (bad[0].get('l'), member, target, what)), '%s:%s' % (chk['file'], bad[0].get('l') if bad else chk['line']))
    ctx.counts['R32.2 option categories'] = len(TABLE)


def run(ctx):
    r32_1(ctx)
    r32_2(ctx)
    r32_3(ctx)
    r32_4(ctx)


def r32_3(ctx):
    """R32.3  relative include paths are resolved against the entry's own "directory": every FileSettings appended by importCompileCommands has passed
    fsSetIncludePaths with a base path derived from that entry's directory on every path - or its include paths were copied from a lookup whose key
    contains that directory (a memo keyed only on the option text hands the first entry's resolution to entries of other directories)."""
    F = ctx.facts
    ctx.rule('R32.3', 'the include paths of every compilation-database entry are resolved against that entry\'s directory')
    f = F.one('ImportProject::importCompileCommands')
    body = F.body(f)['body']
    # locals derived from obj["directory"]
    dirvars = set()
    for x in walk(body):
        if x.get('k') == 'VarDecl' and x.get('init') is not None and 'directory' in lits(x['init']):
            dirvars.add(x['di'])
    changed = True
    while changed:
        changed = False
        for x in walk(body):
            if x.get('k') == 'VarDecl' and x.get('init') is not None and x['di'] not in dirvars and \
                    any(y.get('k') == 'DeclRefExpr' and y.get('di') in dirvars for y in walk(x['init'])):
                dirvars.add(x['di'])
                changed = True
    if not dirvars:
        raise AnalysisBroken('importCompileCommands: no local is derived from the "directory" member')
    inits = {x['di']: x.get('init') for x in walk(body) if x.get('k') == 'VarDecl' and x.get('di')}

    def mentions_dir(n):
        return any(y.get('k') == 'DeclRefExpr' and y.get('di') in dirvars for y in walk(n or {}))

    def is_push(x):
        return x.get('k') == 'CXXMemberCallExpr' and (x.get('fn') or '').rsplit('::', 1)[-1] in ('push_back', 'emplace_back') and \
            any(y.get('k') == 'MemberExpr' and y.get('n') == 'ImportProject::fileSettings' for y in walk(x['c'][0]))

    def gen(x):
        if x.get('k') == 'CallExpr' and (x.get('fn') or '').endswith('fsSetIncludePaths'):
            a = call_args(x)
            if len(a) >= 2 and mentions_dir(a[1]):
                v = [y for y in walk(a[0]) if y.get('k') == 'DeclRefExpr' and y.get('dk') == 'Var']
                return ['resolved:%s' % v[0]['di']] if v else ()
        if x.get('k') in ('CXXOperatorCallExpr', 'BinaryOperator') and x.get('op') == '=':
            ops = call_args(x) if x.get('k') == 'CXXOperatorCallExpr' else x['c']
            if len(ops) == 2:
                l = strip_all(ops[0])
                if l.get('k') == 'MemberExpr' and l.get('n') == 'FileSettings::includePaths':
                    # copied from a lookup result: the lookup key must contain the directory
                    for y in walk(ops[1]):
                        if y.get('k') == 'DeclRefExpr' and y.get('di') in inits and inits[y['di']] is not None:
                            for z in walk(inits[y['di']]):
                                if z.get('k') == 'CXXMemberCallExpr' and (z.get('fn') or '').rsplit('::', 1)[-1] in ('find', 'at', 'equal_range', 'lower_bound') and \
                                        any(mentions_dir(a) for a in call_args(z)):
                                    v = [w for w in walk(l) if w.get('k') == 'DeclRefExpr' and w.get('dk') == 'Var']
                                    return ['resolved:%s' % v[0]['di']] if v else ()
        return ()
    res = paths.Must(gen=gen, observe=is_push).run(body)
    n = 0
    for i, s in res.at.items():
        node = res.at_node[i]
        a = call_args(node)
        v = [y for y in walk(a[0]) if y.get('k') == 'DeclRefExpr' and y.get('dk') == 'Var'] if a else []
        n += 1
        ok = bool(v) and ('resolved:%s' % v[0]['di']) in s
        ctx.ob('R32.3', 'entry-include-base#%d' % n, ok, 'the include paths of the entry appended at line %s were resolved against the entry\'s directory' % node['l'] if ok else
               ('ImportProject::importCompileCommands appends an entry at line %s whose include paths were not, on every path, resolved by fsSetIncludePaths against the entry\'s own '
                '"directory" (nor copied from a lookup keyed on it): a relative -I of this entry is interpreted relative to another entry\'s directory' % node['l']),
               '%s:%s' % (f['file'], node['l']))
    ctx.floor('R32.3 appends to the project', n, 1)


def r32_4(ctx):
    """R32.4  "and no others": an option spelling the parser accepts must not also be the beginning of an ordinary argument of a GCC-style command line.
    A spelling that starts with '/' is the beginning of every absolute POSIX path ("/Users/me/x.c" -> -U "sers/me/x.c", "-o /Debug/x.o" -> -D "ebug/x.o"), so a
    branch that accepts it without a test of the compiler flavour adds definitions the command never specified."""
    F = ctx.facts
    ctx.rule('R32.4', 'no accepted option spelling is a prefix of an absolute path (unless the branch tests the compiler flavour)')
    parser = F.one('ImportProject::parseArgs')
    pbody = F.body(parser)['body']
    n = 0
    for x in walk(pbody):
        if x.get('k') == 'IfStmt' and x.get('cond') is not None:
            for lit in sorted(l for l in lits(x['cond']) if isinstance(l, str) and len(l) >= 2 and l[0] in '-/'):
                n += 1
                ok = not lit.startswith('/')
                ctx.ob('R32.4', 'option-spelling:%s' % lit, ok, ('option spelling %s cannot begin a path argument' % lit) if ok else
                       ('ImportProject::parseArgs accepts the spelling "%s" (line %s) for every command line: on a GCC-style command an absolute path that starts with it is parsed as that '
                        'option, so the entry is analysed with a definition / undefinition / include path its options never specified' % (lit, x['l'])),
                       '%s:%s' % (parser['file'], x['l']))
    ctx.floor('R32.4 option spellings', n, 8)
