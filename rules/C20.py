"""C20  An interrupted run never corrupts later incremental results (acceptance gate).

Decides: a cache file is trusted only after it parsed completely (tinyxml2 XML_SUCCESS), has the
expected root element, carries the full key and no retry-id; and the text that makes a cache file
parse completely (the closing </analyzerinfo> tag) is written only by AnalyzerInformation::close().
A torn file therefore can never be accepted.  The crash points themselves (every byte offset of
every write) are run-time and are not enumerated.

R20.1  AnalyzerInformation::analyzeFile: every `return false` (= skip the analysis, use the cache) is
       dominated by  xmlError == XML_SUCCESS  and  skipAnalysis(...).empty().
R20.2  AnalyzerInformation::skipAnalysis: the accepting return (empty string) is dominated by the
       root-node test, the root-name test ("analyzerinfo"), the hash-attribute-present test, and lies
       after the loop that rejects cached internalError / invalidLicense results.
R20.3  the literal "</analyzerinfo>" is written to the stream only in close() (who-may-write), and the
       opening "<analyzerinfo" only in analyzeFile after the acceptance test failed.
R20.4  AnalyzerInformation::processFilesTxt returns an error for any per-file cache that exists but does
       not parse (status other than XML_SUCCESS / XML_ERROR_FILE_NOT_FOUND), instead of using a prefix.
"""
from .common.facts import walk, strip, strip_all, call_args, AnalysisBroken
from .common import paths
from .common.xmlmodel import const_string
from .common.jsonguard import expr_sig


def lits(n):
    return [x.get('v') for x in walk(n) if x.get('k') == 'StringLiteral']


def run(ctx):
    F = ctx.facts
    for rid, t in [('R20.1', 'skip-analysis return is dominated by XML_SUCCESS and an empty skipAnalysis() verdict'),
                   ('R20.2', 'accepting return of skipAnalysis is dominated by root / root-name / hash-present tests and follows the retry-id loop'),
                   ('R20.3', 'the closing </analyzerinfo> tag is written only by close()'),
                   ('R20.4', 'processFilesTxt rejects a cache file that exists but does not parse')]:
        ctx.rule(rid, t)

    r20_5(ctx)
    r20_6(ctx)
    r20_7(ctx)

    # ---- R20.1 -----------------------------------------------------------------------------------------
    af = F.one('AnalyzerInformation::analyzeFile')
    body = F.body(af)['body']

    def enum_cmp(n, truth):
        n0 = strip(n)
        out = []
        if n0 is not None and n0.get('k') == 'BinaryOperator' and n0.get('op') in ('==', '!='):
            a, b = strip(n0['c'][0]), strip(n0['c'][1])
            for x, y in ((a, b), (b, a)):
                if y.get('k') == 'DeclRefExpr' and y.get('dk') == 'EnumConstant':
                    eq = (n0['op'] == '==') == truth
                    out.append((('eq' if eq else 'ne'), y['n'].split('::')[-1]))
        if n0 is not None and n0.get('k') == 'CXXMemberCallExpr' and (n0.get('fn') or '').endswith('::empty'):
            obj = strip(n0['c'][0]['c'][0]) if n0['c'][0].get('c') else None
            if obj is not None and obj.get('k') == 'DeclRefExpr':
                out.append((('empty' if truth else 'nonempty'), obj.get('di')))
        return out

    def is_false_return(n):
        return n.get('k') == 'ReturnStmt' and any(y.get('k') == 'CXXBoolLiteralExpr' and y.get('v') is False for y in walk(n)) and \
            not any(y.get('k') in ('CallExpr', 'CXXMemberCallExpr') for y in walk(n))

    # which local holds the verdict of skipAnalysis
    verdict = None
    for x in walk(body):
        if x.get('k') == 'VarDecl' and x.get('init') is not None and any(y.get('fn') == 'AnalyzerInformation::skipAnalysis' for y in walk(x['init'])):
            verdict = x['di']
    if verdict is None:
        raise AnalysisBroken('analyzeFile: no local initialised from skipAnalysis(...)')
    res = paths.analyse(body, cond=enum_cmp, observe=is_false_return)
    rets = [(res.at_node[i], st) for i, st in res.at.items()]
    if not rets:
        raise AnalysisBroken('analyzeFile: no `return false` found')
    for i, (n, st) in enumerate(rets):
        ok1 = ('eq', 'XML_SUCCESS') in st
        ok2 = ('empty', verdict) in st
        ctx.ob('R20.1', 'skip#%d:xml-success' % i, ok1,
               'return false (use the cache) at line %s is %s by xmlError == XML_SUCCESS' % (n['l'], 'dominated' if ok1 else 'NOT dominated'),
               '%s:%s' % (af['file'], n['l']))
        ctx.ob('R20.1', 'skip#%d:verdict-empty' % i, ok2,
               'return false (use the cache) at line %s is %s by skipAnalysis(...).empty()' % (n['l'], 'dominated' if ok2 else 'NOT dominated'),
               '%s:%s' % (af['file'], n['l']))

    # ---- R20.2 -----------------------------------------------------------------------------------------
    sk = F.one('AnalyzerInformation::skipAnalysis')
    sbody = F.body(sk)['body']
    root = attr = None
    for x in walk(sbody):
        if x.get('k') == 'VarDecl' and x.get('init') is not None:
            if any((y.get('fn') or '').endswith('::FirstChildElement') for y in walk(x['init'])) and root is None:
                root = x['di']
            if any((y.get('fn') or '') == 'tinyxml2::XMLElement::Attribute' and 'hash' in lits(y) for y in walk(x['init'])):
                attr = x['di']
    if root is None or attr is None:
        raise AnalysisBroken('skipAnalysis: root element / hash attribute locals not found')

    def cond2(n, truth):
        n0 = strip(n)
        out = []
        if n0 is None:
            return out
        if n0.get('k') == 'DeclRefExpr' and n0.get('di') in (root, attr):
            out.append(('nonnull' if truth else 'null', n0['di']))
        if n0.get('k') == 'BinaryOperator' and n0.get('op') in ('==', '!='):
            a, b = strip(n0['c'][0]), strip(n0['c'][1])
            for x, y in ((a, b), (b, a)):
                if x.get('k') == 'DeclRefExpr' and x.get('di') in (root, attr) and y.get('k') in ('CXXNullPtrLiteralExpr', 'GNUNullExpr', 'IntegerLiteral'):
                    nn = (n0['op'] == '!=') == truth
                    out.append(('nonnull' if nn else 'null', x['di']))
                if x.get('k') == 'CallExpr' and x.get('fn') in ('strcmp', 'std::strcmp') and y.get('k') == 'IntegerLiteral':
                    if 'analyzerinfo' in lits(x) and any((z.get('fn') or '').endswith('::Name') for z in walk(x)):
                        same = (n0['op'] == '==') == truth
                        out.append(('rootname-ok',) if same else ('rootname-bad',))
        return out

    def is_accept(n):
        if n.get('k') != 'ReturnStmt':
            return False
        ls = lits(n)
        return bool(ls) and all(v == '' for v in ls) and not any(y.get('k') in ('CXXOperatorCallExpr',) and y.get('op') == '+' for y in walk(n))

    res = paths.analyse(sbody, cond=cond2, observe=is_accept)
    acc = [(res.at_node[i], st) for i, st in res.at.items()]
    if not acc:
        raise AnalysisBroken('skipAnalysis: accepting return "" not found')
    for i, (n, st) in enumerate(acc):
        for lab, txt in ((('nonnull', root), 'root node present'), (('rootname-ok',), 'root element is <analyzerinfo>'), (('nonnull', attr), 'hash attribute present')):
            ok = lab in st
            ctx.ob('R20.2', 'accept#%d:%s' % (i, lab[0] + ('-hash' if lab == ('nonnull', attr) else '-root' if lab == ('nonnull', root) else '')), ok,
                   'accepting return at line %s is %s by "%s"' % (n['l'], 'dominated' if ok else 'NOT dominated', txt), '%s:%s' % (sk['file'], n['l']))
    # retry-id loop before the accepting return: a loop over child elements that returns a non-empty string when Attribute("id", <retry id>) matches
    retry_ids = set()
    loop_ok = False
    for lp in walk(sbody):
        if lp.get('k') in ('ForStmt', 'WhileStmt', 'CXXForRangeStmt') and lp['l'] < acc[-1][0]['l']:
            has_id_test = any(y.get('k') == 'CXXMemberCallExpr' and (y.get('fn') or '') == 'tinyxml2::XMLElement::Attribute' and 'id' in lits(y) for y in walk(lp))
            rejecting = any(y.get('k') == 'ReturnStmt' and not is_accept(y) for y in walk(lp))
            if has_id_test and rejecting:
                loop_ok = True
    for v in F.vars.values():
        for d in v:
            if d.get('file') == sk['file'] and d.get('svs') and 'internalError' in d['svs']:
                retry_ids |= set(d['svs'])
    ctx.ob('R20.2', 'retry-loop', loop_ok, 'cached results that contain a retry id are rejected before the accepting return' if loop_ok else
           'no loop rejecting cached internalError/invalidLicense results precedes the accepting return', '%s:%d' % (sk['file'], sk['line']))
    ctx.ob('R20.2', 'retry-ids', 'internalError' in retry_ids, 'retry ids: %s' % sorted(retry_ids) if retry_ids else 'the retry id table no longer contains internalError',
           '%s:%d' % (sk['file'], sk['line']))

    # ---- R20.3 who writes the closing / opening tag ----------------------------------------------------------
    closers, openers = [], []
    for f in F.all_fns():
        if not f['file'].startswith(('lib/', 'cli/')):
            continue
        if f['file'] != 'lib/analyzerinfo.cpp' and not any('AnalyzerInformation' in c['f'] for c in f['calls']):
            continue
        b = F.body(f)
        if b is None:
            continue
        for x in walk(b['body']):
            if x.get('k') == 'StringLiteral' and isinstance(x.get('v'), str):
                if '</analyzerinfo>' in x['v']:
                    closers.append((f, x))
                if '<analyzerinfo' in x['v']:
                    openers.append((f, x))
    # also anywhere else in the program
    others = []
    for f in F.all_fns():
        if f['file'].startswith(('lib/', 'cli/')) and f['file'] != 'lib/analyzerinfo.cpp':
            b = None
            if any(True for _ in ()):
                pass
    if not closers:
        raise AnalysisBroken('nobody writes </analyzerinfo>')
    for f, x in closers:
        # writing = the literal is an operand of operator<< on the output stream; reading (find/strip) is fine
        writes = False
        b = F.body(f)['body']
        for y in walk(b):
            if y.get('k') == 'CXXOperatorCallExpr' and y.get('op') == '<<' and any(z is x for z in walk(y)):
                writes = True
        ok = (not writes) or f['name'] == 'AnalyzerInformation::close'
        ctx.ob('R20.3', 'closing-tag:%s' % f['name'], ok,
               ('%s %s the closing tag' % (f['name'], 'writes' if writes else 'only searches for')) if ok else
               ('%s writes "</analyzerinfo>" (line %s): a file that is still being filled would parse completely and could be accepted after a kill'
                % (f['name'], x['l'])), '%s:%s' % (f['file'], x['l']))
    cl = F.one('AnalyzerInformation::close')
    ctx.ob('R20.3', 'close-writes-tag', any(f['name'] == 'AnalyzerInformation::close' for f, _ in closers),
           'AnalyzerInformation::close writes the closing tag', '%s:%d' % (cl['file'], cl['line']))
    for f, x in openers:
        ok = f['name'] in ('AnalyzerInformation::analyzeFile',)
        ctx.ob('R20.3', 'opening-tag:%s' % f['name'], ok, '%s writes the opening <analyzerinfo hash=...> tag' % f['name'], '%s:%s' % (f['file'], x['l']))

    # ---- R20.4 processFilesTxt -----------------------------------------------------------------------------------
    pf = F.one('AnalyzerInformation::processFilesTxt')
    pbody = F.body(pf)['body']

    def is_error_return(n):
        return n.get('k') == 'ReturnStmt' and any(v for v in lits(n))

    res = paths.analyse(pbody, cond=enum_cmp, observe=lambda n: n.get('k') == 'CXXMemberCallExpr' and (n.get('fn') or '').endswith('::FirstChildElement'))
    uses = [(res.at_node[i], st) for i, st in res.at.items()]
    if not uses:
        raise AnalysisBroken('processFilesTxt: no use of the parsed document found')
    for i, (n, st) in enumerate(uses):
        ok = ('eq', 'XML_SUCCESS') in st or (('ne', 'XML_ERROR_FILE_NOT_FOUND') in st and False)
        # accepted form: "if (error != XML_SUCCESS) return ...;" before the first use
        ok = ok or not (('ne', 'XML_SUCCESS') in st)
        dominated = ('eq', 'XML_SUCCESS') in st
        ctx.ob('R20.4', 'doc-use#%d' % i, dominated,
               'the parsed cache document is used at line %s only when LoadFile returned XML_SUCCESS' % n['l'] if dominated else
               'the cache document is used at line %s on a path where LoadFile did not return XML_SUCCESS: a truncated file contributes a prefix of its records'
               % n['l'], '%s:%s' % (pf['file'], n['l']))


def may_report_set(F):
    """keys of all functions from which a virtual ErrorLogger::reportErr call is reachable (reverse closure over call edges)."""
    if getattr(F, '_may_report', None) is not None:
        return F._may_report
    callers = {}
    for f in F.all_fns():
        for g, c in F.callees(f, None):
            callers.setdefault(F.key(g), set()).add(F.key(f))
    work = [F.key(f) for f in F.all_fns() if f['name'].endswith('::reportErr')]
    seen = set(work)
    while work:
        k = work.pop()
        for c in callers.get(k, ()):
            if c not in seen:
                seen.add(c)
                work.append(c)
    F._may_report = seen
    return seen


def r20_5(ctx):
    """R20.5  the cache file of a source file is closed (gets its closing tag) only after everything that can report a
    finding for that file has run: in CppCheck::checkInternal no call that may reach ErrorLogger::reportErr is executed on a
    path after a call that (inside AnalyzerInformation) reaches close().  Otherwise a kill between the two leaves a complete,
    acceptable cache file that lacks the later findings."""
    F = ctx.facts
    ctx.rule('R20.5', 'no finding-producing call follows the closing of the cache file in checkInternal')
    ci = F.one('CppCheck::checkInternal')
    body = F.body(ci)['body']
    close = F.one('AnalyzerInformation::close')
    closers = set()
    for f in F.all_fns():
        if f.get('cls') == 'AnalyzerInformation' or f['name'].startswith('AnalyzerInformation::'):
            r = F.reachable([f], stop=lambda g: not g['name'].startswith('AnalyzerInformation::'))
            if F.key(close) in r:
                closers.add(f['name'])
    reporters = may_report_set(F)
    ctx.counts['AnalyzerInformation methods that reach close()'] = len(closers)

    def is_closer(n):
        if n.get('k') == 'CXXMemberCallExpr':
            fn = n.get('fn') or ''
            if fn in closers:
                return True
            # unique_ptr<AnalyzerInformation>::reset() destroys the object -> destructor -> close()
            if fn.startswith('std::unique_ptr<AnalyzerInformation') and fn.endswith('::reset') and not [a for a in call_args(n) if a.get('k') != 'DefaultArg']:
                return 'AnalyzerInformation::~AnalyzerInformation' in closers
        return False

    def is_reporter(n):
        if n.get('k') in ('CallExpr', 'CXXMemberCallExpr', 'CXXConstructExpr') and n.get('fid'):
            if n.get('k') == 'CXXMemberCallExpr' and (n.get('fn') or '').startswith('AnalyzerInformation::'):
                return False
            for g in F.resolve(ci, n['fid'], n.get('virt', False)):
                if F.key(g) in reporters:
                    return True
        return False

    m = paths.Must(kill=lambda n: ('open',) if is_closer(n) else (), observe=is_reporter, lambda_inline=True)
    out, br, co = m.stmt(body, frozenset({'open'}))
    sites = sorted(((m.res.at_node[i], st) for i, st in m.res.at.items()), key=lambda t: t[0]['l'])
    ctx.floor('R20.5 finding-producing call sites in checkInternal', len(sites), 10)
    nclose = sum(1 for x in walk(body) if is_closer(x))
    ctx.floor('R20.5 closing call sites in checkInternal', nclose, 2)
    bad = [(n, st) for n, st in sites if 'open' not in st]
    ctx.ob('R20.5', 'report-after-close', not bad,
           'every call in checkInternal that can report a finding is executed while the cache file is still unterminated (%d call sites, %d closing sites)' % (len(sites), nclose)
           if not bad else
           'CppCheck::checkInternal calls %s at line %s on a path where the cache file has already been closed (closing tag written): a run killed in between leaves a '
           'well-formed cache file with the right key that lacks these findings, and the next run replays it' % (bad[0][0].get('fn'), bad[0][0]['l']),
           '%s:%s' % (ci['file'], bad[0][0]['l'] if bad else ci['line']))


def r20_6(ctx, rid='R20.6'):
    """R20.6  re-opening keeps what is stored: AnalyzerInformation::reopen rewrites the existing cache file so that more findings can be appended.  The text
    it writes back is the stored content cut at the closing tag and nothing else: the local that holds the content is modified only by
    `resize(find("</analyzerinfo>"))`.  (Findings of a cache-hit file exist only in that file; dropping or rewriting some of them loses them for every later
    run - C18 - and a kill between truncation and rewrite must not leave a shorter but acceptable file - C20.)"""
    F = ctx.facts
    ctx.rule(rid, 'AnalyzerInformation::reopen writes back the stored content unchanged up to the closing tag')
    ro = body = content = None
    # the public reopen() may delegate to helpers of the class: take the AnalyzerInformation method that holds the stored content
    for cand in [f for f in F.all_fns() if f['name'].startswith('AnalyzerInformation::') and F.body(f) is not None and
                 ('reopen' in f['name'].lower() or any(c['f'].startswith('AnalyzerInformation::') for c in f['calls']) or True)]:
        if not ('reopen' in cand['name'].lower() or 'resume' in cand['name'].lower()):
            continue
        cb = F.body(cand)['body']
        for x in walk(cb):
            if x.get('k') == 'VarDecl' and (x.get('t') or '') in ('std::string',) and x.get('init') is not None and any((y.get('fn') or '').endswith('::str') for y in walk(x['init'])):
                ro, body, content = cand, cb, x
    if content is None:
        raise AnalysisBroken('AnalyzerInformation::reopen: the local holding the stored content was not found')
    di = content['di']
    MUT = {'resize', 'erase', 'replace', 'insert', 'append', 'assign', 'clear', 'pop_back', 'push_back', 'operator=', 'operator+=', 'swap'}
    muts = []
    for x in walk(body):
        if x.get('k') == 'CXXMemberCallExpr' and (x.get('fn') or '').split('::')[-1] in MUT and any(y.get('di') == di for y in walk(x['c'][0])):
            muts.append(x)
        if x.get('k') == 'CXXOperatorCallExpr' and x.get('op') in ('=', '+=') and strip(x['c'][1]).get('di') == di:
            muts.append(x)
        if x.get('k') in ('CallExpr', 'CXXMemberCallExpr') and x.get('fid') and not (x.get('fn') or '').startswith('std::'):
            for a in call_args(x):
                a0 = strip(a)
                if a0 is not None and a0.get('k') == 'DeclRefExpr' and a0.get('di') == di and not (a.get('t') or '').startswith('const'):
                    ptypes = [p_['t'] for g in F.resolve(ro, x['fid'], False) for p_ in g.get('params', [])]
                    if any(t.endswith('&') and not t.startswith('const') for t in ptypes):
                        muts.append(x)
    allowed = [m for m in muts if (m.get('fn') or '').endswith('::resize') and '</analyzerinfo>' in [y.get('v') for y in walk(m) if y.get('k') == 'StringLiteral']]
    other = [m for m in muts if m not in allowed]
    ok = len(allowed) == 1 and not other
    ctx.ob(rid, 'reopen-keeps-content', ok, 'reopen() cuts the stored content at the closing tag and writes it back unchanged' if ok else
           ('AnalyzerInformation::reopen modifies the stored content before writing it back (%s at line %s): findings of a file whose results were taken from the cache exist only '
            'there, so what is dropped here is missing in every later run' % ((other[0].get('fn') or 'call'), other[0]['l']) if other else
            'AnalyzerInformation::reopen no longer cuts the stored content at the closing tag'), '%s:%s' % (ro['file'], (other[0]['l'] if other else ro['line'])))


def r20_7(ctx):
    """R20.7  no soft stop in the command-line tool: Settings::terminate() makes CppCheck::checkInternal leave through its early returns and its
    TerminateException handler while the AnalyzerInformation object of the file is alive; the destructor of that object writes the closing tag, so a run
    stopped this way leaves a complete-looking cache file (right key, few findings) that the next run accepts.  In the command-line tool an interruption is
    a kill, which leaves a torn file that is rejected; therefore nothing in cli/ or lib/ may call Settings::terminate() other than the option parser (which
    uses it for --help / --version before any analysis)."""
    F = ctx.facts
    ctx.rule('R20.7', 'Settings::terminate() is not called during analysis by the command-line tool')
    ALLOWED = {'CmdLineParser::fillSettingsFromArgs': 'sets the flag when the option parser returns Result::Exit (--help, --version, --errorlist ...), before any file is analysed'}
    callers = []
    for f in F.all_fns():
        if not f['file'].startswith(('cli/', 'lib/', 'frontend/')):
            continue
        for c in f['calls']:
            if c['f'].split('(')[0] == 'Settings::terminate':
                callers.append((f, c))
    # the destructor really closes: keep the premise checked
    dtor = [f for f in F.find('AnalyzerInformation::~AnalyzerInformation')]
    closes = bool(dtor) and any(c['f'].startswith('AnalyzerInformation::close(') for c in dtor[0]['calls'])
    ctx.counts['callers of Settings::terminate in cli/ and lib/'] = len(callers)
    if not callers:
        ctx.ob('R20.7', 'terminate-callers', True, 'nothing in cli/ and lib/ calls Settings::terminate()', 'lib/settings.h')
    for f, c in callers:
        ok = f['name'] in ALLOWED or not closes
        ctx.ob('R20.7', 'terminate-caller:%s' % f['name'], ok, ('%s calls Settings::terminate(): %s' % (f['name'], ALLOWED.get(f['name'], 'the destructor does not close'))) if ok else
               ('%s calls Settings::terminate() (line %s): a run stopped through this flag returns from checkInternal with the file\'s AnalyzerInformation alive, its destructor '
                'writes </analyzerinfo>, and the next run accepts the partial cache file (right key, missing findings)' % (f['name'], c.get('l'))), '%s:%s' % (f['file'], c.get('l')))
