"""C33  Compiled token-pattern matching equals the pattern language  (partial: the %cmd% tables of the two matchers agree).

Decides (sibling agreement of the two implementations of the %command% vocabulary; everything else of the pattern language -
alternatives, optional and negated tokens, multi-token sequencing, the generated control flow - is not decided):

R33.1  Specialisation of the interpreter: for every %cmd% of the match compiler's table (tools/matchcompiler.py::_compileCmd, read
       with Python's ast) the character trie of multiComparePercent (lib/token.cpp) is partially evaluated on the constant string
       "%cmd%" (only comparisons of pattern characters against literals are folded; the token stays symbolic).  Obligations:
         a. the trie reaches a `return 1` for the command (not the "Unexpected command" throw),
         b. the test on the token that guards that return uses the same Token predicates, comparison operators and constants as the
            C++ expression the match compiler emits for the command,
         c. at the return and at the fall-through the pattern pointer has advanced by exactly len("%cmd%").
R33.2  Vocabulary: the commands the property names (%name% %var% %num% %op% %or% %oror% %varid%) are in the compiler's table.

R33.3  Literal words: for a word w of tools/matchcompiler.py::tokTypes that lists eKeyword the compiled matcher tests
       `tokType() == eKeyword && str() == w`, the interpreter only `str() == w`.  Token::update_property_info gives a name token
       eKeyword only if TokenList::isKeyword(w) (or w is its special-cased "asm"), i.e. only if w is in Keywords::getAll(std) of the
       language standard in force.  Obligation per word: w is in every set Keywords::getAll can return (all C and all C++
       standards; lib/keywords.cpp after preprocessing, the sets resolved through the `return` statements of the two getAll
       overloads) and not in isKeyword's "types are not keywords" exclusion - otherwise under the standard that lacks it the
       compiled pattern stops matching where the interpreted one still matches.  The obligation is per (word, language): a word
       that the compiled lib/ patterns can only meet in one language is not excused (patterns are shared).
       Two words of the pinned tree do not satisfy it and are tabled, one line of reason each, in R33_WORD_TABLE below.

Tabled equivalence (one line of reason): %varid% - the compiled test additionally calls isName(); Token::varId(id) sets the token
type to eVariable for id != 0, for which isName() is true, and varid 0 is rejected by both matchers, so the conjunct is implied.
"""
import ast
import os
import re
from .common.facts import walk, children, strip_all, call_args, AnalysisBroken

DOCUMENTED = ['%name%', '%var%', '%num%', '%op%', '%or%', '%oror%', '%varid%']
# command -> atoms the compiled side may have in addition (reason in the module docstring)
IMPLIED_EXTRA = {'%varid%': {('isName',)}}


class Stop(Exception):
    pass


def py_table(root):
    path = os.path.join(root, 'tools', 'matchcompiler.py')
    tree = ast.parse(open(path).read())
    fn = [n for n in ast.walk(tree) if isinstance(n, ast.FunctionDef) and n.name == '_compileCmd']
    if len(fn) != 1:
        raise AnalysisBroken('tools/matchcompiler.py: %d definitions of _compileCmd' % len(fn))
    out = {}
    for n in fn[0].body:
        if isinstance(n, ast.If) and isinstance(n.test, ast.Compare) and len(n.test.ops) == 1 and isinstance(n.test.ops[0], ast.Eq) \
                and isinstance(n.test.comparators[0], ast.Constant) and isinstance(n.test.comparators[0].value, str):
            cmd = n.test.comparators[0].value
            if cmd.startswith('%') and cmd.endswith('%') and len(cmd) > 2:
                rets = [r for r in n.body if isinstance(r, ast.Return) and isinstance(r.value, ast.Constant) and isinstance(r.value.value, str)]
                if len(rets) == 1:
                    out[cmd] = (rets[0].value.value, n.lineno)
    return out, path


ATOM = re.compile(r'tok->(\w+)\(\)\s*(?:(==|!=)\s*(Token::\w+|MatchCompiler::makeConstString\("((?:[^"\\]|\\.)*)"\)\s*|\w+))?')


def py_atoms(expr):
    if expr.strip() == 'true':
        return set()
    atoms = set()
    for m in ATOM.finditer(expr):
        meth, op, rhs, s = m.group(1), m.group(2), m.group(3), m.group(4)
        if op is None:
            atoms.add((meth,))
        elif s is not None:
            atoms.add((meth, op, 'str:' + s))
        else:
            rhs = rhs.strip()
            rhs = rhs.split('::')[-1]
            rhs = re.sub(r'^(\d+)[uU]$', r'\1', rhs)
            atoms.add((meth, op, rhs))
    if '||' in re.sub(r'"(?:[^"\\]|\\.)*"', '""', expr):
        atoms.add(('||',))
    return atoms


def cpp_atoms(cond, tokdi):
    """atoms of a C++ condition on the symbolic token"""
    atoms = set()
    consumed = set()

    def tokcall(n):
        n = strip_all(n)
        if n.get('k') == 'CXXMemberCallExpr' and n.get('c'):
            obj = n['c'][0]
            if any(y.get('k') == 'DeclRefExpr' and y.get('di') == tokdi for y in walk(obj)):
                return (n.get('fn') or '').split('::')[-1], n
        return None, None

    def rhs_sig(n):
        n = strip_all(n)
        lits = [y for y in walk(n) if y.get('k') == 'StringLiteral']
        if lits:
            return 'str:' + lits[0]['v']
        if n.get('k') == 'IntegerLiteral':
            return str(n['v'])
        if n.get('k') == 'DeclRefExpr':
            return (n.get('n') or '').split('::')[-1]
        return n.get('k')
    for x in walk(cond):
        if x.get('k') in ('BinaryOperator', 'CXXOperatorCallExpr') and x.get('op') in ('==', '!='):
            ops = call_args(x) if x.get('k') == 'CXXOperatorCallExpr' else x['c']
            if len(ops) == 2:
                for a, b in ((ops[0], ops[1]), (ops[1], ops[0])):
                    m, node = tokcall(a)
                    if m:
                        atoms.add((m, x['op'], rhs_sig(b)))
                        consumed.add(id(node))
                        break
        if x.get('k') == 'BinaryOperator' and x.get('op') == '||':
            atoms.add(('||',))
    for x in walk(cond):
        m, node = tokcall(x)
        if m and id(node) not in consumed and x.get('k') == 'CXXMemberCallExpr':
            atoms.add((m,))
    return atoms


class Spec:
    """Partial evaluation of multiComparePercent on a constant pattern string."""

    def __init__(self, body, hay, tok, s):
        self.body, self.hay, self.tok, self.s = body, hay, tok, s + '\0'
        self.off = 0
        self.matches = []       # (atoms, offset)
        self.throws = []
        self.fall = None

    def ch(self, n):
        """constant value of a char expression on the pattern, or None"""
        n = strip_all(n)
        if n.get('k') == 'CharacterLiteral':
            return n['v']
        if n.get('k') == 'IntegerLiteral':
            return int(n['v'])
        if n.get('k') == 'ArraySubscriptExpr':
            base, idx = strip_all(n['c'][0]), strip_all(n['c'][1])
            if base.get('k') == 'DeclRefExpr' and base.get('di') == self.hay and idx.get('k') == 'IntegerLiteral':
                p = self.off + int(idx['v'])
                return ord(self.s[p]) if p < len(self.s) else 0
        if n.get('k') == 'UnaryOperator' and n.get('op') == '*':
            base = strip_all(n['c'][0])
            if base.get('k') == 'DeclRefExpr' and base.get('di') == self.hay:
                return ord(self.s[self.off]) if self.off < len(self.s) else 0
        return None

    def const_cond(self, c):
        c = strip_all(c)
        if c.get('k') == 'BinaryOperator' and c.get('op') in ('==', '!='):
            a, b = self.ch(c['c'][0]), self.ch(c['c'][1])
            if a is not None and b is not None:
                return (a == b) if c['op'] == '==' else (a != b)
        if c.get('k') == 'BinaryOperator' and c.get('op') in ('&&', '||'):
            a, b = self.const_cond(c['c'][0]), self.const_cond(c['c'][1])
            if a is not None and b is not None:
                return (a and b) if c['op'] == '&&' else (a or b)
        return None

    def mentions_tok(self, c):
        return any(y.get('k') == 'DeclRefExpr' and y.get('di') == self.tok for y in walk(c))

    def run(self):
        try:
            self.stmts(self.body.get('c') or [])
        except Stop:
            pass
        return self

    def stmts(self, lst):
        for st in lst:
            r = self.stmt(st)
            if r == 'break':
                return 'break'
        return None

    def stmt(self, n):
        k = n.get('k')
        if k == 'CompoundStmt':
            return self.stmts(n.get('c') or [])
        if k == 'UnaryOperator' and n.get('op') in ('++',) and strip_all(n['c'][0]).get('di') == self.hay:
            self.off += 1
            return None
        if k == 'CompoundAssignOperator' and n.get('op') == '+=' and strip_all(n['c'][0]).get('di') == self.hay:
            v = strip_all(n['c'][1])
            if v.get('k') != 'IntegerLiteral':
                raise AnalysisBroken('multiComparePercent: pattern pointer advanced by a non-literal at line %s' % n['l'])
            self.off += int(v['v'])
            return None
        if k == 'SwitchStmt':
            v = self.ch(n.get('cond'))
            if v is None:
                raise AnalysisBroken('multiComparePercent: switch on a non-pattern value at line %s' % n['l'])
            body = n.get('body') or {}
            items = body.get('c') or []
            start = None
            for i, it in enumerate(items):
                if it.get('k') == 'CaseStmt' and it.get('cv') == v:
                    start = i
                    break
            if start is None:
                for i, it in enumerate(items):
                    if it.get('k') == 'DefaultStmt':
                        start = i
                        break
            if start is None:
                return None
            for it in items[start:]:
                sub = it
                while sub.get('k') in ('CaseStmt', 'DefaultStmt'):
                    sub = sub.get('sub') or {}
                if self.stmt(sub) == 'break':
                    break
            # after the switch: this is the fall-through (no match) continuation
            self.fall = self.off
            raise Stop()
        if k == 'IfStmt':
            c = n.get('cond')
            cc = self.const_cond(c)
            if cc is not None:
                br = n.get('then') if cc else n.get('else')
                return self.stmt(br) if br else None
            if self.mentions_tok(c):
                # symbolic test on the token: a `return 1` in the then-branch is the match
                t = n.get('then') or {}
                rets = [y for y in walk(t) if y.get('k') == 'ReturnStmt']
                if rets:
                    save = self.off
                    self.matches.append((c, self.off, n['l']))
                    self.off = save
                if n.get('else'):
                    return self.stmt(n['else'])
                return None
            # neither pattern nor token (e.g. varid == 0 -> throw): follow the non-throwing branch
            t = n.get('then') or {}
            if any(y.get('k') == 'CXXThrowExpr' for y in walk(t)):
                return self.stmt(n['else']) if n.get('else') else None
            raise AnalysisBroken('multiComparePercent: condition at line %s is neither a pattern test nor a token test' % n['l'])
        if k == 'ReturnStmt':
            self.matches.append((None, self.off, n['l']))
            raise Stop()
        if k == 'BreakStmt':
            return 'break'
        if k == 'CXXThrowExpr' or any(y.get('k') == 'CXXThrowExpr' for y in walk(n)):
            self.throws.append(n['l'])
            raise Stop()
        return None


# word -> (standard sets it may be missing from (prefix of the set name), reason, structural condition checked on every run)
R33_WORD_TABLE = {
    'inline': (('c89',), 'Tokenizer::simplifyKeyword deletes every `inline` token for every language and standard before any check pattern runs '
                          '(the file-static set `keywords` of lib/tokenize.cpp lists it unconditionally); condition: that set still lists it',
               'simplifyKeyword-removes'),
}


def py_toktypes(root):
    path = os.path.join(root, 'tools', 'matchcompiler.py')
    tree = ast.parse(open(path).read())
    for n in tree.body:
        if isinstance(n, ast.Assign) and len(n.targets) == 1 and isinstance(n.targets[0], ast.Name) and n.targets[0].id == 'tokTypes' \
                and isinstance(n.value, ast.Dict):
            out = {}
            for k, v in zip(n.value.keys, n.value.values):
                if isinstance(k, ast.Constant) and isinstance(v, ast.List):
                    out[k.value] = ([e.value for e in v.elts if isinstance(e, ast.Constant)], k.lineno)
            return out
    raise AnalysisBroken('tools/matchcompiler.py: the tokTypes table is gone')


def keyword_sets(root):
    """lib/keywords.cpp after preprocessing: name -> set of words, and per getAll overload the sets it can return."""
    import subprocess
    src = os.path.join(root, 'lib', 'keywords.cpp')
    r = subprocess.run(['clang++', '-E', '-P', '-std=c++11', '-I', os.path.join(root, 'lib'), src],
                       capture_output=True, text=True)
    if r.returncode != 0:
        raise AnalysisBroken('lib/keywords.cpp does not preprocess: ' + r.stderr[-300:])
    txt = r.stdout
    sets = {}
    for m in re.finditer(r'static\s+const\s+std::unordered_set<std::string>\s+(\w+)\s*=\s*\{(.*?)\};', txt, re.S):
        sets[m.group(1)] = set(re.findall(r'"((?:[^"\\]|\\.)*)"', m.group(2)))
    ret = {}
    for m in re.finditer(r'Keywords::getAll\s*\(\s*Standards::(\w+)\s+\w+\s*\)\s*\{(.*?)\n\}', txt, re.S):
        ret[m.group(1)] = re.findall(r'return\s+(\w+)\s*;', m.group(2))
    return sets, ret


def iskeyword_exclusions(F):
    """string literals of the static sets inside TokenList::isKeyword, split by the isCPP() branch they sit in."""
    cands = [g for g in F.find('TokenList::isKeyword') if F.body(g) is not None]
    if len(cands) != 1:
        raise AnalysisBroken('TokenList::isKeyword: %d definitions' % len(cands))
    excl = {}
    for n in walk(F.body(cands[0])['body']):
        if n.get('k') == 'VarDecl' and n.get('static') and 'unordered_set' in (n.get('t') or ''):
            excl[n.get('n')] = set(x.get('v', '') for x in walk(n) if x.get('k') == 'StringLiteral')
    return excl, cands[0]


def r33_3(ctx, F):
    ctx.rule('R33.3', 'every word of the match compiler\'s tokTypes table typed eKeyword is a keyword (TokenList::isKeyword) under every C and every C++ standard '
                      'Keywords::getAll can return; otherwise the compiled pattern requires a token type the tokenizer does not assign under that standard')
    tt = py_toktypes(F.root)
    words = {w: v for w, v in tt.items() if re.match(r'^[A-Za-z_]\w*$', w) and 'eKeyword' in v[0]}
    ctx.floor('R33.3 eKeyword words in tokTypes', len(words), 20)
    sets, ret = keyword_sets(F.root)
    if set(ret) != {'cstd_t', 'cppstd_t'} or any(len(v) < 5 for v in ret.values()) or any(n not in sets for v in ret.values() for n in v):
        raise AnalysisBroken('lib/keywords.cpp: the two Keywords::getAll overloads / their sets were not resolved (%s)' % {k: len(v) for k, v in ret.items()})
    ctx.floor('R33.3 keyword sets returned by Keywords::getAll', sum(len(v) for v in ret.values()), 13)
    excl, isk = iskeyword_exclusions(F)
    if len(excl) != 2:
        raise AnalysisBroken('TokenList::isKeyword: expected the two exclusion sets (c_types, cpp_types), found %s' % sorted(excl))
    ex_c = set().union(*[v for k, v in excl.items() if k.startswith('c_')])
    ex_cpp = set().union(*[v for k, v in excl.items() if k.startswith('cpp')])
    tokenize = ctx.read('lib/tokenize.cpp')
    m = re.search(r'static\s+const\s+std::unordered_set<std::string>\s+keywords\s*=\s*\{(.*?)\};', tokenize, re.S)
    if not m or 'simplifyKeyword' not in tokenize:
        raise AnalysisBroken('lib/tokenize.cpp: the file-static `keywords` set that Tokenizer::simplifyKeyword deletes was not found (condition of the tabled word inline)')
    removed = set(re.findall(r'"(\w+)"', m.group(1)))
    mt = re.search(r'static\s+const\s+std::unordered_set<std::string>\s+stdTypes\s*=\s*\{(.*?)\};', ctx.read('lib/token.cpp'), re.S)
    stdtypes = set(re.findall(r'"(\w+)"', mt.group(1))) if mt else set()
    if 'void' not in stdtypes:
        raise AnalysisBroken('lib/token.cpp: the stdTypes set (update_property_isStandardType) was not found')
    for w, (types, line) in sorted(words.items()):
        if w in stdtypes:
            ok = 'eType' in types
            ctx.ob('R33.3', 'type-word-lists-eType:%s' % w, ok, ('%r is a standard type word and tokTypes lists eType for it' % w) if ok else
                   ('tools/matchcompiler.py:%s types %r as %s, but Token::update_property_isStandardType retypes a keyword token of the stdTypes set (lib/token.cpp) to eType: '
                    'the compiled pattern never matches the word, the interpreted one does' % (line, w, types)), 'tools/matchcompiler.py:%s' % line)
    for w, (types, line) in sorted(words.items()):
        missing = []
        for lang, names in sorted(ret.items()):
            ex = ex_c if lang == 'cstd_t' else ex_cpp
            for nme in names:
                if (w not in sets[nme] or w in ex) and w != 'asm':
                    missing.append(nme.replace('_keywords_all', ''))
        tab = R33_WORD_TABLE.get(w)
        if missing and tab and all(any(x.startswith(p) for p in tab[0]) for x in missing) and w in removed:
            ctx.note('R33.3 tabled word %r (not a keyword under %s): %s' % (w, ','.join(missing), tab[1]))
            missing = []
        ok = not missing
        ctx.ob('R33.3', 'keyword-every-standard:%s' % w, ok, ('%r is a keyword under every standard (or tabled with a checked condition)' % w) if ok else
               ('tools/matchcompiler.py:%s types the literal word %r as eKeyword, but TokenList::isKeyword(%r) is false under %s (lib/keywords.cpp): there '
                'Token::update_property_info makes it eName/eVariable, the compiled `tokType() == Token::eKeyword && str() == "%s"` fails and the interpreted '
                'matcher (string comparison) still matches' % (line, w, w, ','.join(missing), w)), 'tools/matchcompiler.py:%s' % line)


class Unhandled(Exception):
    pass


UNK = object()
NPOS = -1


LINK = [UNK]
VARID = [0]
ISCPP = [False]
# Token::mLink is only ever set on bracket tokens (Tokenizer::createLinks / createLinks2 / TokenList::createAst link ( ) [ ] { } < >); for every other
# string the evaluation runs with mLink == nullptr only, for these with both values (two runs: the tests of mLink in one chain are correlated)
LINKABLE = set('()[]{}<>')


def _ev(n, w):
    """Three-valued evaluation of a condition of Token::update_property_info for the constant token string w (mLink unknown, no varId)."""
    n = strip_all(n)
    k = n.get('k')
    kids = [c for c in (n.get('c') or [])]
    if k in ('CXXStaticCastExpr', 'CStyleCastExpr', 'CXXFunctionalCastExpr', 'ExprWithCleanups', 'MaterializeTemporaryExpr', 'CXXBindTemporaryExpr') and kids:
        return _ev(kids[-1], w)
    if k == 'StringLiteral':
        return n.get('v')
    if k == 'IntegerLiteral':
        return int(n.get('v'))
    if k == 'CharacterLiteral':
        return chr(n.get('v'))
    if k == 'CXXBoolLiteralExpr':
        return bool(n.get('v'))
    if k == 'MemberExpr':
        nm = n.get('n', '')
        if nm == 'Token::mStr':
            return w
        if nm == 'Token::mLink':
            return LINK[0]
        if nm.endswith('::mVarId'):
            return VARID[0]
        if nm == 'Token::mIsCpp':
            return ISCPP[0]
        raise Unhandled('member %s' % nm)
    if k == 'DeclRefExpr' and 'npos' in n.get('n', ''):
        return NPOS
    if k == 'UnaryOperator' and n.get('op') == '!':
        v = _ev(kids[0], w)
        return UNK if v is UNK else (not v)
    if k == 'BinaryOperator' and n.get('op') in ('&&', '||'):
        a = _ev(kids[0], w)
        if n['op'] == '&&' and a is not UNK and not a:
            return False
        if n['op'] == '||' and a is not UNK and a:
            return True
        b = _ev(kids[1], w)
        if a is UNK:
            if n['op'] == '&&' and b is not UNK and not b:
                return False
            if n['op'] == '||' and b is not UNK and b:
                return True
            return UNK
        return b
    if (k == 'BinaryOperator' or k == 'CXXOperatorCallExpr') and n.get('op') in ('==', '!=', '<', '<=', '>', '>='):
        ops = kids if k == 'BinaryOperator' else kids[1:]
        a, b = _ev(ops[0], w), _ev(ops[1], w)
        if a is UNK or b is UNK:
            return UNK
        if type(a) is not type(b):
            raise Unhandled('comparison of %r and %r' % (a, b))
        return {'==': a == b, '!=': a != b, '<': a < b, '<=': a <= b, '>': a > b, '>=': a >= b}[n['op']]
    if k == 'CXXOperatorCallExpr' and n.get('op') == '[]':
        base, idx = _ev(kids[1], w), _ev(kids[2], w)
        return base[idx] if idx < len(base) else '\0'
    if k == 'CXXMemberCallExpr':
        fn = n.get('fn', '')
        me = strip_all(kids[0])
        obj = _ev(me['c'][0], w) if me.get('c') else None
        args = [_ev(a, w) for a in kids[1:] if a.get('k') != 'DefaultArg' and a.get('k') != 'CXXDefaultArgExpr']
        if fn.endswith('::size') or fn.endswith('::length'):
            return len(obj)
        if fn.endswith('::empty'):
            return len(obj) == 0
        if fn.endswith('::find_first_of') and len(args) == 1:
            idx = [i for i, c in enumerate(obj) if c in args[0]]
            return idx[0] if idx else NPOS
        if fn.endswith('::find') and len(args) == 1:
            return obj.find(args[0])
        raise Unhandled('member call %s' % fn)
    if k == 'CallExpr':
        fn = n.get('fn', '')
        args = [_ev(a, w) for a in kids[1:]]
        if fn in ('strchr', 'std::strchr'):
            return args[1] in args[0]
        if fn in ('isalpha', 'std::isalpha'):
            return args[0].isalpha()
        # helpers whose answer for a string without quote, digit or letter is fixed (read: utils.h isStringLiteral/isCharLiteral test the closing quote,
        # simplecpp::Token::isNumberLike tests a digit at [0] or after a sign)
        if fn.split('::')[-1] in ('isStringLiteral', 'isCharLiteral', 'isNumberLike'):
            return False
        raise Unhandled('call %s' % fn)
    raise Unhandled('node %s' % k)


def _types(n, w, out):
    """token types a tokType(e..) call can assign on the paths of statement n that are feasible for the string w"""
    if n is None:
        return
    k = n.get('k')
    if k == 'IfStmt':
        c = _ev(n['cond'], w)
        if c is UNK or c:
            _types(n.get('then'), w, out)
        if c is UNK or not c:
            _types(n.get('else'), w, out)
        return
    if k in ('CXXMemberCallExpr', 'CallExpr') and (n.get('fn') or '').endswith('Token::tokType'):
        refs = [x.get('n', '') for a in (n.get('c') or [])[1:] for x in walk(a) if x.get('k') == 'DeclRefExpr']
        if len(refs) != 1:
            raise Unhandled('tokType argument')
        out.add(refs[0].split('::')[-1])
        return
    if k in ('CompoundStmt',):
        for c in n.get('c') or []:
            _types(c, w, out)
        return
    if k in ('ExprWithCleanups',):
        for c in n.get('c') or []:
            _types(c, w, out)


def r33_4(ctx, F):
    ctx.rule('R33.4', 'for every operator / punctuation string of the match compiler\'s tokTypes table, every token type that Token::update_property_info can assign to a token with '
                      'that string (its else-if chain evaluated on the constant string, mLink unknown) is listed in the table')
    tt = py_toktypes(F.root)
    words = {w: v for w, v in tt.items() if not re.search(r'[A-Za-z0-9_"\'$]', w)}
    ctx.floor('R33.4 operator strings in tokTypes', len(words), 35)
    cands = [g for g in F.find('Token::update_property_info') if F.body(g) is not None]
    if len(cands) != 1:
        raise AnalysisBroken('Token::update_property_info: %d definitions' % len(cands))
    body = F.body(cands[0])['body']
    for w, (types, line) in sorted(words.items()):
        got = set()
        try:
            for lv in ((False, True) if w in LINKABLE else (False,)):
                LINK[0] = lv
                _types(body, w, got)
        except Unhandled as e:
            raise AnalysisBroken('Token::update_property_info uses a construct the R33.4 evaluator does not model (%s)' % e)
        if not got:
            raise AnalysisBroken('R33.4: no tokType() assignment found for %r' % w)
        extra = got - set(types)
        ok = not extra
        ctx.ob('R33.4', 'operator-types:%s' % w, ok, ('%r: update_property_info assigns %s, tokTypes lists %s' % (w, sorted(got), sorted(types))) if ok else
               ('tools/matchcompiler.py:%s lists %s for the literal %r, but Token::update_property_info (lib/token.cpp:%s) can give such a token the type %s: the compiled '
                'pattern then fails on a token the interpreted matcher (string comparison) matches' % (line, sorted(types), w, cands[0]['line'], sorted(extra))),
               'tools/matchcompiler.py:%s' % line)


def r33_5(ctx, F):
    ctx.rule('R33.5', 'for the words the tokTypes table types eBoolean, every token type Token::update_property_info can assign to a token with that string '
                      '(evaluated with and without a variable id, as C and as C++) is listed in the table')
    tt = py_toktypes(F.root)
    words = {w: v for w, v in tt.items() if 'eBoolean' in v[0]}
    ctx.floor('R33.5 eBoolean words in tokTypes', len(words), 2)
    cands = [g for g in F.find('Token::update_property_info') if F.body(g) is not None]
    body = F.body(cands[0])['body']
    for w, (types, line) in sorted(words.items()):
        got = set()
        LINK[0] = False
        try:
            for cpp in (False, True):
                for vid in (0, 1):
                    if cpp and vid and w in ('true', 'false'):
                        continue    # update_property_info throws InternalError for a C++ bool literal with a variable id
                    ISCPP[0], VARID[0] = cpp, vid
                    _types(body, w, got)
        except Unhandled as e:
            raise AnalysisBroken('Token::update_property_info uses a construct the R33.5 evaluator does not model (%s)' % e)
        finally:
            ISCPP[0], VARID[0] = False, 0
        extra = got - set(types)
        ok = not extra
        ctx.ob('R33.5', 'word-types:%s' % w, ok, ('%r: update_property_info assigns %s, tokTypes lists %s' % (w, sorted(got), sorted(types))) if ok else
               ('tools/matchcompiler.py:%s lists %s for the literal word %r, but Token::update_property_info (lib/token.cpp:%s) gives a token %r that has a variable id (C code '
                'that declares a variable of that name) the type %s: the compiled pattern fails on it, the interpreted matcher (string comparison) matches'
                % (line, sorted(types), w, cands[0]['line'], w, sorted(extra))), 'tools/matchcompiler.py:%s' % line)


def run(ctx):
    F = ctx.facts
    r33_3(ctx, F)
    r33_4(ctx, F)
    r33_5(ctx, F)
    ctx.rule('R33.1', 'for every %cmd% the interpreter (multiComparePercent, specialised to the command) and the match compiler (_compileCmd) test the same Token predicates, '
                      'and the interpreter consumes exactly the command')
    ctx.rule('R33.2', 'the commands the property names are in the match compiler\'s table')
    table, path = py_table(F.root)
    ctx.floor('R33 commands in _compileCmd', len(table), 10)
    cands = [g for g in F.find('multiComparePercent') if F.body(g) is not None]
    if len(cands) != 1:
        raise AnalysisBroken('multiComparePercent: %d definitions' % len(cands))
    f = cands[0]
    body = F.body(f)['body']
    ps = {p['n']: p['di'] for p in f['params']}
    hay = [p['di'] for p in f['params'] if 'char' in p['t']]
    tok = [p['di'] for p in f['params'] if 'Token' in p['t']]
    if len(hay) != 1 or len(tok) != 1:
        raise AnalysisBroken('multiComparePercent: parameters changed')
    for cmd in DOCUMENTED:
        ok = cmd in table
        ctx.ob('R33.2', 'vocabulary:%s' % cmd, ok, ('%s is in the match compiler\'s table' % cmd) if ok else
               ('tools/matchcompiler.py::_compileCmd has no entry for the documented command %s: compiled patterns compare it as a literal string' % cmd), 'tools/matchcompiler.py')
    for cmd, (expr, line) in sorted(table.items()):
        sp = Spec(body, hay[0], tok[0], cmd + ' x').run()
        reached = bool(sp.matches)
        ctx.ob('R33.1', 'interpreter-handles:%s' % cmd, reached, ('the interpreter reaches a match for %s' % cmd) if reached else
               ('multiComparePercent specialised to "%s" never reaches `return 1`%s: the interpreted matcher rejects (or throws on) a command the match compiler implements'
                % (cmd, (' (throws at line %s)' % sp.throws[0]) if sp.throws else '')), '%s:%s' % (f['file'], f['line']))
        if not reached:
            continue
        cond, off, l = sp.matches[0]
        got = cpp_atoms(cond, tok[0]) if cond is not None else set()
        want = py_atoms(expr)
        extra_ok = IMPLIED_EXTRA.get(cmd, set())
        ok = got == want or (got <= want and (want - got) <= extra_ok)
        ctx.ob('R33.1', 'predicate:%s' % cmd, ok, ('%s: both matchers test %s' % (cmd, sorted(got) or 'nothing (always true)')) if ok else
               ('%s: the interpreter (lib/token.cpp:%s) tests %s, the match compiler (tools/matchcompiler.py:%s) emits %s: the compiled and the interpreted matcher disagree on this command'
                % (cmd, l, sorted(got), line, sorted(want))), '%s:%s' % (f['file'], l))
        offs = {off} | ({sp.fall} if sp.fall is not None else set())
        ok = offs == {len(cmd)}
        ctx.ob('R33.1', 'consumes:%s' % cmd, ok, ('%s: the pattern pointer advances by %d' % (cmd, len(cmd))) if ok else
               ('%s: multiComparePercent advances the pattern pointer by %s, the command has %d characters: the rest of the pattern is misread'
                % (cmd, sorted(offs), len(cmd))), '%s:%s' % (f['file'], l))
    if IMPLIED_EXTRA:
        ctx.note('R33.1 tabled equivalence: %varid% compiled side has isName() in addition (implied by Token::varId setter: id != 0 sets eVariable)')
