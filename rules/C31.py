"""C31  File selection and path matching follow the documented rules  (partial: gating of enumerated files, one matcher).

Decides (structural necessary conditions; the glob / canonicalisation semantics of PathMatch::match itself are value computations and are not decided):

R31.1  In the directory lister (cli/filelister.cpp, the variant compiled on this platform) every element appended to the output
       list from a path string is reached only with the fact "the ignore matcher rejected this path" (`!ignored.match(p)`), and
       when the path was discovered by traversal (not the path the user named) additionally with "Path::acceptFile(p) accepted it".
       A missing test analyses files excluded with -i, or files without a source extension found in a directory.
R31.2  Sibling agreement on the matcher: the -i filter of the lister, the --file-filter, the project-file exclusion and the file test of
       suppressions (SuppressionList::Suppression::isSuppressed, local-suppression lookup) all end in the same pattern matcher
       (the static PathMatch::match) - "suppression file patterns use the same matching".
R31.3  In CmdLineParser::fillSettingsFromArgs the files found by the lister reach CmdLineParser::mFiles only through the
       --file-filter (when one is given): the list copied into mFiles is, on the branch where Settings::fileFilters is not empty,
       the result of the filter function.

The sorted-order clause is decided by R29.2 (C29).  Not decided: canonicalisation, '*', '**', '?' semantics, relative/absolute patterns,
trailing separators (PathMatch::match and Path::simplifyPath on arbitrary strings); the Windows variant of the lister is not compiled here
and therefore not analysed.
"""
from .common.facts import walk, children, strip_all, call_args, AnalysisBroken
from .common import paths

MODIFIERS = ('erase', 'append', 'assign', 'clear', 'push_back', 'insert', 'replace', 'resize', 'pop_back', 'swap', 'operator=', 'operator+=')


def first_var(n):
    for y in walk(n):
        if y.get('k') == 'DeclRefExpr' and y.get('dk') in ('Var', 'ParmVar') and 'string' in (y.get('t') or ''):
            return y
    return None


def r31_1(ctx):
    F = ctx.facts
    ctx.rule('R31.1', 'every file the directory lister appends has been rejected by the ignore matcher and, when found by traversal, accepted by Path::acceptFile')
    fns = [f for f in F.all_fns() if f['file'] == 'cli/filelister.cpp' and F.body(f) is not None]
    seen = set()
    n = 0
    for f in fns:
        if F.key(f) in seen:
            continue
        seen.add(F.key(f))
        outs = {p['di'] for p in f['params'] if 'FileWithDetails' in p['t'] and '&' in p['t'] and 'const' not in p['t'].split('<')[0]}
        if not outs:
            continue
        params = {p['di'] for p in f['params']}
        body = F.body(f)['body']

        def is_append(x):
            if x.get('k') == 'CXXMemberCallExpr' and (x.get('fn') or '').rsplit('::', 1)[-1] in ('emplace_back', 'push_back', 'emplace_front', 'push_front', 'emplace'):
                obj = strip_all(x['c'][0]) if x.get('c') else {}
                return any(y.get('k') == 'DeclRefExpr' and y.get('di') in outs for y in walk(obj))
            return False

        def cond(x, truth):
            x = strip_all(x)
            if x.get('k') == 'CXXMemberCallExpr' and x.get('fn') == 'PathMatch::match' and not truth:
                a = call_args(x)
                v = first_var(a[0]) if a else None
                return ['notignored:%s' % v['di']] if v else ()
            if x.get('k') == 'CallExpr' and x.get('fn') == 'Path::acceptFile' and truth:
                a = call_args(x)
                v = first_var(a[0]) if a else None
                return ['accepted:%s' % v['di']] if v else ()
            return ()

        def kill(x):
            if x.get('k') in ('CXXMemberCallExpr', 'CXXOperatorCallExpr'):
                name = (x.get('fn') or '').rsplit('::', 1)[-1]
                if name in MODIFIERS:
                    tgt = strip_all(x['c'][0]) if x.get('k') == 'CXXMemberCallExpr' else (strip_all(call_args(x)[0]) if call_args(x) else {})
                    if x.get('k') == 'CXXMemberCallExpr' and tgt.get('k') == 'MemberExpr' and tgt.get('c'):
                        tgt = strip_all(tgt['c'][0])
                    if tgt.get('k') == 'DeclRefExpr' and tgt.get('di'):
                        return ['notignored:%s' % tgt['di'], 'accepted:%s' % tgt['di']]
            return ()
        res = paths.Must(cond=cond, kill=kill, observe=is_append).run(body)
        k = 0
        for i, s in res.at.items():
            node = res.at_node[i]
            a = call_args(node)
            v = first_var(a[0]) if a else None
            if v is None:
                continue        # not built from a path string (a FileWithDetails object moved between lists)
            k += 1
            n += 1
            traversal = v['di'] not in params
            need = ['notignored:%s' % v['di']] + (['accepted:%s' % v['di']] if traversal else [])
            missing = [x.split(':')[0] for x in need if x not in s]
            if missing and not traversal:
                # the test may sit in the callers: every call site of this function must hold the fact for the argument bound to the parameter
                pidx = [i for i, p in enumerate(f['params']) if p['di'] == v['di']][0]
                sites_ok, nsites = True, 0
                for g in fns:
                    gb = F.body(g)['body']

                    def is_call(n, f=f):
                        return n.get('k') == 'CallExpr' and n.get('fid') == f['id']
                    r2 = paths.Must(cond=cond, kill=kill, observe=is_call).run(gb)
                    for j, s2 in r2.at.items():
                        nsites += 1
                        ca = call_args(r2.at_node[j])
                        av = first_var(ca[pidx]) if pidx < len(ca) else None
                        if av is None or any(('%s:%s' % (m, av['di'])) not in s2 for m in missing):
                            sites_ok = False
                if nsites and sites_ok:
                    missing = []
            ok = not missing
            ctx.ob('R31.1', 'lister-gate:%s:%s#%d' % (f['name'], 'found' if traversal else 'named', k), ok,
                   ('%s appends %s (line %s) only after %s' % (f['name'], v['n'], node['l'], ' and '.join(x.split(':')[0] for x in need))) if ok else
                   ('%s appends the path %s to the list of files at line %s without the fact %s: %s' % (
                       f['name'], v['n'], node['l'], ' / '.join(missing),
                       'a file excluded with -i is analysed' if 'notignored' in missing else 'a file without an accepted source extension found in a directory is analysed')),
                   '%s:%s' % (f['file'], node['l']))
    ctx.floor('R31.1 appends of the directory lister', n, 2)


def r31_2(ctx):
    F = ctx.facts
    ctx.rule('R31.2', 'the -i filter, --file-filter, project exclusion and the file test of suppressions end in the same pattern matcher')
    target = [f for f in F.find('PathMatch::match') if len(f['params']) >= 3 and F.body(f) is not None]
    if len(target) != 1:
        raise AnalysisBroken('PathMatch::match (pattern matcher): %d definitions' % len(target))
    tk = F.key(target[0])
    roots = [('lister (-i)', 'addFiles2', 'cli/filelister.cpp'),
             ('--file-filter', 'CmdLineParser::filterFiles', None),
             ('project exclusion', 'ImportProject::ignorePaths', None),
             ('suppression file test', 'SuppressionList::Suppression::isSuppressed', None),
             ('local suppression lookup', 'SuppressionList::isSuppressedExplicitly', None)]
    n = 0
    for what, name, file in roots:
        fs = [f for f in F.find(name, file) if F.body(f) is not None]
        if not fs:
            if what in ('lister (-i)', 'suppression file test'):
                raise AnalysisBroken('anchor %s vanished' % name)
            ctx.note('R31.2: %s (%s) not present, skipped' % (what, name))
            continue
        for f in fs[:1]:
            # does this function test a file name at all?  (isSuppressedExplicitly etc. may not)
            reach = F.reachable([f])
            uses_any = any(g['name'] in ('PathMatch::match', 'matchglob') for k, (g, _, _) in reach.items())
            ok = tk in reach
            if not ok and what == 'local suppression lookup' and not uses_any:
                continue
            n += 1
            other = sorted({g['name'] for k, (g, _, _) in reach.items() if g['name'] in ('matchglob',)})
            ctx.ob('R31.2', 'matcher:%s' % name, ok, ('%s reaches the pattern matcher PathMatch::match' % name) if ok else
                   ('%s (%s) does not reach the static PathMatch::match%s: file patterns are matched by different rules than -i patterns'
                    % (name, what, (' but calls ' + ', '.join(other)) if other else '')), '%s:%s' % (f['file'], f['line']))
    ctx.floor('R31.2 users of the pattern matcher', n, 3)
    # inside isSuppressed: the file-name comparison itself goes through PathMatch (not matchglob / ==)
    f = [g for g in F.find('SuppressionList::Suppression::isSuppressed') if F.body(g) is not None][0]
    body = F.body(f)['body']
    tests = []
    for x in walk(body):
        if x.get('k') in ('CallExpr', 'CXXMemberCallExpr', 'CXXOperatorCallExpr', 'BinaryOperator'):
            direct = [y for c in (call_args(x) if x.get('k') != 'BinaryOperator' else x['c']) for y in [strip_all(c)]]
            reads_file = any(y.get('k') == 'MemberExpr' and y.get('n') == 'SuppressionList::Suppression::fileName' for y in direct)
            reads_msg = any(z.get('fn') in ('SuppressionList::ErrorMessage::getFileName',) for c in direct for z in walk(c))
            if reads_file and reads_msg:
                tests.append(x)
    ctx.floor('R31.2 file-name tests in isSuppressed', len(tests), 1)
    if not any(x.get('fn') == 'PathMatch::match' for x in tests):
        tests = tests[:1]
    else:
        # an additional exact-equality fast path is subsumed by the matcher; a different matcher is not
        tests = [x for x in tests if x.get('fn') == 'PathMatch::match' or x.get('k') in ('CallExpr', 'CXXMemberCallExpr')]
    for i, x in enumerate(tests):
        ok = x.get('fn') == 'PathMatch::match'
        ctx.ob('R31.2', 'suppression-file-test:%d' % i, ok, 'isSuppressed compares the file pattern through PathMatch::match' if ok else
               ('SuppressionList::Suppression::isSuppressed compares the file pattern of the suppression with the file of the finding through %s (line %s), not through PathMatch::match'
                % (x.get('fn') or x.get('op') or x.get('k'), x['l'])), '%s:%s' % (f['file'], x['l']))


def r31_3(ctx):
    F = ctx.facts
    ctx.rule('R31.3', 'with --file-filter the files that reach CmdLineParser::mFiles went through the filter')
    f = F.one('CmdLineParser::fillSettingsFromArgs')
    body = F.body(f)['body']
    # source list of the copies into mFiles
    srcs = set()
    for x in walk(body):
        if x.get('k') == 'CallExpr' and (x.get('fn') or '') in ('std::copy_if', 'std::copy', 'std::move') and \
                any(y.get('k') == 'MemberExpr' and y.get('n') == 'CmdLineParser::mFiles' for y in walk(x)):
            a = call_args(x)
            if a:
                v = [y for y in walk(a[0]) if y.get('k') == 'DeclRefExpr' and y.get('dk') == 'Var']
                if v:
                    srcs.add(v[0]['di'])
    if not srcs:
        raise AnalysisBroken('fillSettingsFromArgs: no copy into mFiles found')
    n = 0
    for di in sorted(srcs):
        # every assignment to the source list: under `!fileFilters.empty()` it must come from filterFiles / a PathMatch filter
        for x in walk(body):
            if x.get('k') == 'IfStmt' and x.get('cond') is not None and any(y.get('k') == 'MemberExpr' and y.get('n') == 'Settings::fileFilters' for y in walk(x['cond'])):
                neg = strip_all(x['cond']).get('k') == 'UnaryOperator' and strip_all(x['cond']).get('op') == '!'
                with_filter = x.get('then') if neg else x.get('else')
                without = x.get('else') if neg else x.get('then')

                def assigns(branch):
                    out = []
                    for y in walk(branch or {}):
                        if y.get('k') == 'CXXOperatorCallExpr' and y.get('op') == '=':
                            a = call_args(y)
                            if len(a) == 2 and strip_all(a[0]).get('k') == 'DeclRefExpr' and strip_all(a[0]).get('di') == di:
                                out.append((y, a[1]))
                    return out
                wa, wo = assigns(with_filter), assigns(without)
                if not wa and not wo:
                    continue
                n += 1
                ok = bool(wa) and all(any(z.get('k') == 'CallExpr' and any(g['name'] == 'PathMatch::match' for k, (g, _, _) in F.reachable(F.resolve(f, z['fid'])).items())
                                           for z in walk(rhs) if z.get('fid')) for _, rhs in wa)
                ctx.ob('R31.3', 'file-filter-applied:%d' % n, ok, 'with --file-filter the list copied into mFiles is assigned from the filter function' if ok else
                       ('CmdLineParser::fillSettingsFromArgs: on the branch where --file-filter patterns exist (line %s) the list that is copied into mFiles is not assigned '
                        'from a function that applies the patterns: files outside the filter are analysed' % x['l']), '%s:%s' % (f['file'], x['l']))
    ctx.floor('R31.3 filter branches', n, 1)


def run(ctx):
    r31_1(ctx)
    r31_2(ctx)
    r31_3(ctx)
