"""C13  Any input is handled without crash (exception-containment clause).

Decides: no C++ exception that cppcheck's own code raises on account of its input or options can
propagate out of main() (where nothing catches it: std::terminate / SIGABRT).  Memory safety,
undefined behaviour and termination are run-time properties and are not decided here.

R13.1  may-throw effect analysis: origins = every `throw` expression in lib/, cli/, frontend/,
       externals/ (header code of simplecpp / picojson / tinyxml2 included) and every call of the
       std::sto* family (pseudo-throw of invalid_argument / out_of_range).  For each exception type
       the set S(type) of functions from which it propagates uncaught to main is computed over the
       call graph, honouring the handler types of every enclosing try block at every call site
       (class hierarchy aware; lambdas keep the handlers of the place where they are written
       unless handed to std::async / stored in a member).  An origin inside S(type) is an
       obligation failure, keyed by type + origin (+ immediate caller for generic helpers).
R13.2  the handler set of the per-file analysis entry (CppCheck::checkInternal) covers the repo's
       exception vocabulary: InternalError, TerminateException, std::runtime_error, std::bad_alloc.
R13.3  every explicit throw in lib/ is of a type in the closed vocabulary the handlers know.
Deliberately excluded (stated limitation): .at(), substr, operator new, i.e. failures that depend on
index arithmetic rather than on the kind of input.
"""
import collections

from .common.facts import walk, AnalysisBroken
from .common.throws import Throws
from .common.jsonguard import unguarded_gets

# generic helpers: one obligation per (helper, immediate caller) because the callers differ in what they feed it
HELPERS = {'strToInt', 'picojson::value::get', 'picojson::value::to_str', 'Path::getAbsoluteFilePath', 'picojson::value::_serialize'}

# contexts that do not depend on user input: propagation is not followed below them
INPUT_INDEPENDENT = {
    'CppCheck::getErrorMessages': '--errorlist / --doc call every *Error() with fixed null arguments; the path is input independent and '
                                  'exercised by the test-suite (TestCppcheck::getErrorMessages, testerrorlist)',
}

# origins whose throw cannot happen for a reason that is a value argument (read and confirmed), one line each
EXEMPT = {
    'escape:std::invalid_argument:replaceEscapeSequences': 'std::stoi gets "0" plus at most two characters that were tested with isxdigit / octal range: always a valid number',
    'escape:std::out_of_range:replaceEscapeSequences': 'at most 3 hex / octal digits: fits in int',
    'escape:std::out_of_range:ProgramMemory::at': 'guarded accessor: every caller tests ProgramMemory::hasValue / getValue before at() (paired predicate idiom, DESIGN C13)',
    'escape:std::invalid_argument:ProcessExecutor::handleRead': 'parses the length prefix and fields written by PipeWriter in the same executable (internal protocol, not user input); a corrupted pipe is C21',
    'escape:std::out_of_range:ProcessExecutor::handleRead': 'same as above',
    'escape:std::runtime_error:SuppressionList::parseLine': 'called by ProcessExecutor::handleRead on a string produced by Suppression::toString in the worker (internal protocol)',
    'escape:std::runtime_error:strToInt<-ProcessExecutor::handleRead': 'internal pipe protocol, fields written with std::to_string by the worker',
    'escape:std::runtime_error:strToInt<-ErrorMessage::deserialize': 'internal pipe protocol: the string was produced by ErrorMessage::serialize in the worker',
    'escape:std::invalid_argument:getClassification': 'guideline strings come from the built-in checkers tables / premium addon ids of the form N.M; splitString guarantees two components but not digits: internal data',
    'escape:std::out_of_range:getClassification': 'same as above',
    'escape:simplecpp::Macro::Error:simplecpp::Macro::parseDefine': 'after the -D loop (handled, see fixed findings) the only remaining Macro(name, value, files) constructions in simplecpp::preprocess use fixed literal names and values (__STRICT_ANSI__, __FILE__, __LINE__, __COUNTER__, __DATE__, __TIME__, __STDC_VERSION__, __cplusplus from a constant table): no __VA_OPT__ can occur in them; macros from #define are handled by catch (Macro::Error)',
    'escape:std::runtime_error:Library::load': 'the "multiple libraries" throw is unreachable from the command line: CmdLineParser splits --library= at commas before calling tryLoadLibrary',
}


_EVAL = ('reached only through ConditionalGroup::evalCondition (Condition="..." attribute of a .vcxproj given with --project): the '
         'condition string is tokenized and TokenList::createAst() is called with only std::runtime_error handled; 11 probe '
         'conditions did not make createAst throw InternalError, so no failing input is known (candidate)')
UNDECIDED = {
    'escape:InternalError:Token::astParent': _EVAL,
    'escape:InternalError:Token::linkAtImpl': _EVAL,
    'escape:InternalError:Token::update_property_info': _EVAL,
    'escape:InternalError:TokenList::createAst': _EVAL,
    'escape:InternalError:compileBinOp': _EVAL,
    'escape:InternalError:compileExpression': _EVAL,
    'escape:InternalError:compilePrecedence2': _EVAL,
    'escape:InternalError:compileTerm': _EVAL,
    'escape:InternalError:compileUnaryOp': _EVAL,
    'escape:InternalError:createAstAtToken': _EVAL,
    'escape:InternalError:multiComparePercent': _EVAL,
    'escape:std::runtime_error:FileWithDetails::FileWithDetails': 'the "empty path" throw needs an empty file name; importCompileCommands rejects entries without a usable "file" first (probe with "file": "" gave a normal error); no failing input known',
    'escape:std::runtime_error:Path::getAbsoluteFilePath<-FileWithDetails::abspath': 'throws only if realpath() fails for a file that FileLister just enumerated / the user named; no failing input known',
    'escape:std::runtime_error:Path::getAbsoluteFilePath<-Library::load': 'called after the .cfg was opened successfully; realpath() of an opened file does not fail in practice',
    'escape:std::runtime_error:Path::getAbsoluteFilePath<-loadVisualStudioProperties': 'property sheet path that was just loaded',
    'escape:std::runtime_error:picojson::value::get<-Settings::loadCppcheckCfg': 'cppcheck.cfg next to the executable is an installation file, not analysis input (its root value is read with get<object>() unguarded)',
    'escape:std::runtime_error:picojson::value::to_str<-picojson::value::_serialize': 'to_str() of an object/array key inside serialize(): keys are std::string by construction',
    'escape:std::runtime_error:strToInt<-CheckUnusedFunctions::analyseWholeProgram': 'reads the analyzer-info files that cppcheck itself wrote into the build dir (numbers written with operator<<); a torn file fails XML parsing before (C20)',
    'escape:std::runtime_error:strToInt<-CheckClass::loadFileInfoFromXml': 'same: build-dir summaries written by MyFileInfo::toString with std::to_string',
    'escape:std::runtime_error:strToInt<-CppCheck::analyseClangTidy': 'line/column come from a regex-like split of clang-tidy output lines (file:line:col:), external tool output, not the analysed source',
    'escape:std::runtime_error:strToInt<-reportClangErrors': 'line/column of clang diagnostics (external tool output)',
}


def run(ctx):
    F = ctx.facts
    r13_5(ctx)
    r13_6(ctx)
    ctx.rule('R13.1', 'no throw expression / std::sto* call propagates uncaught to main() (call graph + handler types at every call site)')
    ctx.rule('R13.2', 'CppCheck::checkInternal catches InternalError, TerminateException, std::runtime_error, std::bad_alloc around the analysis')
    ctx.rule('R13.3', 'explicit throws in lib/ use the closed exception vocabulary')
    T = Throws(F)
    mains = [f for f in F.find('main') if f['file'] == 'cli/main.cpp']
    if len(mains) != 1:
        raise AnalysisBroken('main() in cli/main.cpp not found')
    main = mains[0]
    fns = T.byk

    origins = collections.defaultdict(list)
    norig = 0
    for fk, f in fns.items():
        for ty, o in T._local(f).items():
            origins[ty].append((fk, o))
            norig += 1
    ctx.floor('throw / sto* origin sites (not caught in their own function)', norig, 60)

    def escaping_set(ty):
        s = {F.key(main): None}
        work = collections.deque([F.key(main)])
        while work:
            hk = work.popleft()
            h = fns[hk]
            if h['name'] in INPUT_INDEPENDENT:
                continue
            for g, c in F.callees(h, all_sites=True):
                gk = F.key(g)
                if gk in fns and gk not in s and not T.caught(ty, c.get('tr', ())):
                    s[gk] = (hk, c['l'])
                    work.append(gk)
        return s

    nob = 0
    for ty in sorted(origins):
        S = escaping_set(ty)
        for fk, o in sorted(origins[ty], key=lambda x: x[0]):
            f = fns[fk]
            where = '%s:%s' % (f['file'], o[2])
            base = 'escape:%s:%s' % (ty, f['name'])
            if fk not in S:
                nob += 1
                ctx.ob('R13.1', base, True, '%s raised in %s is caught on every call chain from main' % (ty, f['name']), where)
                continue
            # path from main
            chain = []
            k = fk
            while k is not None:
                p = S[k]
                chain.append(fns[k]['name'] + ((':%s' % p[1]) if p else ''))
                k = p[0] if p else None
            chain = list(reversed(chain))
            keys = []
            if f['name'] in HELPERS:
                for gk in S:
                    g = fns[gk]
                    if g['name'] in INPUT_INDEPENDENT:
                        continue
                    for c in g['calls']:
                        if c['f'] == f['id'] and not T.caught(ty, c.get('tr', ())):
                            keys.append((base + '<-' + g['name'], g, c['l']))
                seen = set()
                keys = [k_ for k_ in keys if not (k_[0] in seen or seen.add(k_[0]))]
            else:
                keys = [(base, None, None)]
            for key, g, line in keys:
                nob += 1
                if g is not None and f['name'] == 'picojson::value::get':
                    ung, tot = unguarded_gets(F, g)
                    if not ung:
                        ctx.ob('R13.1', key, True, 'all %d picojson get<T>() calls in %s are dominated by is<T>() on the same value' % (tot, g['name']),
                               '%s:%s' % (g['file'], line))
                        continue
                if key in UNDECIDED:
                    ctx.note('not decided: %s: %s' % (key, UNDECIDED[key]))
                    continue
                if key in EXEMPT:
                    ctx.note('not a finding: %s: %s' % (key, EXEMPT[key]))
                    ctx.ob('R13.1', key, True, 'value-guarded / internal data: ' + EXEMPT[key], where)
                    continue
                if g is not None:
                    gchain = []
                    k = F.key(g)
                    while k is not None:
                        p = S[k]
                        gchain.append(fns[k]['name'] + ((':%s' % p[1]) if p else ''))
                        k = p[0] if p else None
                    path = ' > '.join(list(reversed(gchain))[-7:] + [f['name']])
                    w2 = '%s:%s' % (g['file'], line)
                else:
                    path = ' > '.join(chain[-8:])
                    w2 = where
                ctx.ob('R13.1', key, False,
                       '%s (%s at %s) propagates to main() without meeting a matching handler: %s'
                       % (ty, o[0], where, path), w2, {'chain': chain, 'origin': where})
    ctx.counts['origin_obligations'] = nob

    # ---- R13.4 null dereference of missing XML text/attributes in readers of user supplied files
    ctx.rule('R13.4', 'readers of user supplied XML (project files, platform files, suppression files) null-test tinyxml2 Attribute()/GetText() '
                      'results before converting/comparing/dereferencing them (same rule as R30.1, other files)')
    from . import C30
    user_xml = tuple(sorted({f['file'] for f in F.all_fns() if f['file'] in ('lib/importproject.cpp', 'lib/platform.cpp', 'lib/suppressions.cpp',
                                                                              'cli/cmdlineparser.cpp', 'lib/settings.cpp', 'lib/addoninfo.cpp')
                             and any(c['f'].split('(')[0] in C30.NULLABLE for c in f['calls'])}))
    if user_xml:
        class _Sub:
            pass
        before = len(ctx.obls)
        rules_before = dict(ctx.rules)
        C30.run(ctx, user_xml)
        ctx.rules = rules_before
        for o in ctx.obls[before:]:
            o['rule'] = 'R13.4'

    # ---- R13.2 handler vocabulary of the per-file entry
    ci = F.one('CppCheck::checkInternal')
    body = F.body(ci)['body']
    tries = [x for x in walk(body) if x.get('k') == 'CXXTryStmt']
    if not tries:
        raise AnalysisBroken('CppCheck::checkInternal has no try block')
    outer = max(tries, key=lambda t: sum(1 for _ in walk(t)))
    handled = [h.get('ct') for h in outer['c'][1:]]
    for need in ('InternalError', 'TerminateException', 'std::runtime_error', 'std::bad_alloc'):
        ok = T.caught(need, handled)
        ctx.ob('R13.2', 'handler:%s' % need, ok,
               ('checkInternal\'s outer try handles %s' % need) if ok else
               ('the outer try of CppCheck::checkInternal has no handler for %s (handlers: %s): every such exception raised by the '
                'tokenizer/checks ends in std::terminate' % (need, handled)), '%s:%s' % (ci['file'], outer['l']))

    # ---- R13.3 vocabulary of explicit throws in lib/
    VOCAB = ('InternalError', 'TerminateException', 'std::runtime_error', 'std::bad_alloc')
    seen = set()
    for fk, f in fns.items():
        if not f['file'].startswith('lib/'):
            continue
        for t in f['throws']:
            ty = t['t']
            if not ty or t.get('re'):
                continue
            if (ty, f['name']) in seen:
                continue
            seen.add((ty, f['name']))
            in_vocab = any(T.caught(ty, [v]) for v in VOCAB)
            key = 'vocab:%s@%s' % (ty, f['name'])
            if in_vocab:
                ctx.ob('R13.3', key, True, '%s thrown in %s is handled by the analysis entry\'s vocabulary' % (ty, f['name']), '%s:%s' % (f['file'], t['l']))
            else:
                # thrown and caught locally by a dedicated handler is fine (e.g. ProgramMemory::at callers)
                local_ok = T.caught(ty, t.get('tr', ())) or (ty, f['name']) in {('std::out_of_range', 'ProgramMemory::at')}
                esc = fk in escaping_set(ty) and not local_ok
                ctx.ob('R13.3', key, not esc or ('escape:%s:%s' % (ty, f['name'])) in EXEMPT,
                       ('%s thrown in %s never leaves a dedicated handler' % (ty, f['name'])) if not esc else
                       ('%s thrown in %s is outside the vocabulary that CppCheck::checkInternal turns into findings' % (ty, f['name'])),
                       '%s:%s' % (f['file'], t['l']))


# signed division / modulo sites that are not reachable with an overflowing operand pair, with the reason
DIV_LATENT = {
    ('MathLib::value::calc', '%='): 'operator% of MathLib::value is not used outside TEST_MATHLIB_VALUE builds (the template simplifier uses only shifts and bit operators of it)',
    ('ValueFlow::solveExprValue', '/='): 'divides the known result by a known factor of a multiplication; the divisor is tested for zero and a product equal to LLONG_MIN with factor -1 cannot be a known int value',
}


def r13_5(ctx):
    """R13.5  hardware traps: a signed 64-bit `/` or `%` (MathLib::bigint, long long) with a non-literal divisor raises SIGFPE for a zero divisor and for
    LLONG_MIN / -1.  Every such site in lib/ is dominated by a zero test of the divisor and by a guard for the overflowing pair (a test against
    numeric_limits<...>::min(), or a rejection of negative divisors).  Sibling agreement: MathLib::divide has both guards, so must MathLib::mod."""
    from .common import paths as _p
    from .common.facts import walk, strip, call_args
    F = ctx.facts
    ctx.rule('R13.5', 'signed 64-bit division and modulo are guarded against zero and LLONG_MIN / -1')
    n = 0
    for f in F.all_fns():
        if not f['file'].startswith('lib/'):
            continue
        b = F.body(f)
        if b is None:
            continue
        sites = []
        for x in walk(b['body']):
            if x.get('k') in ('BinaryOperator', 'CompoundAssignOperator') and x.get('op') in ('/', '%', '/=', '%=') and (x.get('t') or '') in ('MathLib::bigint', 'long long', 'long', 'int64_t', 'std::int64_t'):
                d = x['c'][1]
                while d is not None and d.get('k') in ('ImplicitCastExpr', 'ParenExpr') and d.get('c'):
                    d = d['c'][0]
                if d is not None and d.get('k') == 'IntegerLiteral':
                    continue
                sites.append((x, d))
        if not sites:
            continue

        def sig(e):
            e = strip(e)
            while e is not None and e.get('k') in ('ImplicitCastExpr', 'ParenExpr', 'CXXFunctionalCastExpr', 'CXXStaticCastExpr') and e.get('c'):
                e = strip(e['c'][0])
            if e is None:
                return None
            return e.get('di') or e.get('n') or e.get('fn')

        from .common.facts import walk_parents
        chains = {}
        for y, parents in walk_parents(b['body']):
            for x, d in sites:
                if y is x:
                    chains[id(x)] = list(parents) + [y]

        def terminates(st):
            if st is None:
                return False
            if st.get('k') == 'CompoundStmt':
                return bool(st.get('c')) and terminates(st['c'][-1])
            return st.get('k') in ('ReturnStmt', 'BreakStmt', 'ContinueStmt') or any(y.get('k') == 'CXXThrowExpr' for y in walk(st))

        def mentions_zero_test(c, ds):
            for y in walk(c):
                if y.get('k') == 'BinaryOperator' and y.get('op') == '==':
                    r = strip(y['c'][1])
                    while r is not None and r.get('k') == 'ImplicitCastExpr' and r.get('c'):
                        r = r['c'][0]
                    if r is not None and r.get('k') == 'IntegerLiteral' and r.get('v') == '0' and sig(y['c'][0]) == ds:
                        return True
                if y.get('k') == 'CallExpr' and y.get('fn') == 'isZero' and any(sig(a) == ds or any(sig(z) == ds for z in walk(a)) for a in call_args(y)):
                    return True
            return False

        def mentions_overflow_guard(c, ds):
            txt = ' '.join(str(y.get('n') or y.get('fn') or '') for y in walk(c))
            if 'numeric_limits' in txt and '::min' in txt:
                return True
            for y in walk(c):
                if y.get('k') == 'BinaryOperator' and y.get('op') == '<':
                    r = strip(y['c'][1])
                    while r is not None and r.get('k') == 'ImplicitCastExpr' and r.get('c'):
                        r = r['c'][0]
                    if r is not None and r.get('k') == 'IntegerLiteral' and r.get('v') == '0' and (sig(y['c'][0]) == ds or any(sig(z) == ds for z in walk(y['c'][0]))):
                        return True
            return False

        def preceded_by(x, pred):
            """an earlier statement of an enclosing block is `if (pred) <leaves>`, or x lies in the else / fall-through of such a test"""
            chain = chains.get(id(x), [])
            for i, anc in enumerate(chain):
                if anc.get('k') in ('CompoundStmt', 'CaseStmt', 'DefaultStmt', 'SwitchStmt'):
                    kids = anc.get('c', []) if anc.get('k') == 'CompoundStmt' else []
                    if any(k_.get('k') in ('CaseStmt', 'DefaultStmt') for k_ in kids):
                        continue      # a switch body: only the statements of the same case group count (handled below)
                    nxt = chain[i + 1] if i + 1 < len(chain) else None
                    for k_ in kids:
                        if k_ is nxt:
                            break
                        if k_.get('k') == 'IfStmt' and k_.get('cond') is not None and pred(k_['cond']) and terminates(k_.get('then')):
                            return True
                if anc.get('k') == 'CaseStmt':
                    # statements of a case label are siblings inside the switch body: look at the statements between the label and x
                    pass
            # flat switch bodies: statements after `case` up to x
            for anc in chain:
                if anc.get('k') == 'CompoundStmt':
                    kids = anc.get('c', [])
                    idx = next((i for i, k_ in enumerate(kids) if any(z is x for z in walk(k_))), None)
                    if idx is None:
                        continue
                    for k_ in reversed(kids[:idx + 1]):
                        cands = [k_]
                        if k_.get('k') in ('CaseStmt', 'DefaultStmt'):
                            cands = [z for z in walk(k_) if z.get('k') == 'IfStmt']
                        for c_ in cands:
                            if c_.get('k') == 'IfStmt' and c_.get('cond') is not None and pred(c_['cond']) and terminates(c_.get('then')) and not any(z is x for z in walk(c_)):
                                return True
                        if k_.get('k') in ('CaseStmt', 'DefaultStmt') and not any(z is x for z in walk(k_)):
                            break
            return False

        def sig(e):
            e = strip(e)
            while e is not None and e.get('k') in ('ImplicitCastExpr', 'ParenExpr', 'CXXFunctionalCastExpr', 'CXXStaticCastExpr', 'CXXUnresolvedConstructExpr') and e.get('c'):
                e = strip(e['c'][-1])
            if e is None:
                return None
            return e.get('di') or e.get('n') or e.get('fn')
        for x, d in sites:
            n += 1
            ds = sig(d)
            zero_ok = preceded_by(x, lambda c: mentions_zero_test(c, ds))
            ovf_ok = preceded_by(x, lambda c: mentions_overflow_guard(c, ds))
            key = 'div:%s:%s' % (f['name'], x['op'])
            where = '%s:%s' % (f['file'], x['l'])
            if (f['name'], x['op']) in DIV_LATENT and not (zero_ok and ovf_ok):
                ctx.note('R13.5 not armed: %s %s at %s - %s' % (f['name'], x['op'], where, DIV_LATENT[(f['name'], x['op'])]))
                continue
            ok = zero_ok and ovf_ok
            ctx.ob('R13.5', key, ok, ('%s: `%s` is guarded against a zero divisor and the LLONG_MIN / -1 pair' % (f['name'], x['op'])) if ok else
                   ('%s computes a signed 64-bit `%s` at line %s %s: the operands come from the analysed source (constant folding), and the hardware raises SIGFPE' %
                    (f['name'], x['op'], x['l'], 'without a zero test of the divisor' if not zero_ok else 'without a guard for LLONG_MIN and a divisor of -1 (the sibling MathLib::divide has one)')),
                   where)
    ctx.floor('R13.5 signed 64-bit division / modulo sites', n, 5)


def r13_6(ctx):
    """R13.6  termination of the class-hierarchy walkers: findVariableTypeInBase, findFunctionInBase, Type::getFunction, isDerivedFrom ... recurse over
    Type::derivedFrom without a visited set; they terminate because the base-class graph is kept acyclic when it is built.  Every write of a non-null
    value to Type::BaseInfo::type is therefore dominated by a negative Type::findDependency(...) test (who-may-write + must-guard)."""
    from .common import paths as _p
    from .common.facts import walk, strip
    F = ctx.facts
    ctx.rule('R13.6', 'base-class links are only made after the cycle test (the hierarchy walkers rely on an acyclic graph)')
    n = 0
    for f in F.all_fns():
        if not f['file'].startswith('lib/') or not any(a['n'] == 'Type::BaseInfo::type' and a['a'] != 'r' for a in f['acc']):
            continue
        b = F.body(f)
        if b is None:
            continue

        def cond(node, truth):
            n0 = strip(node)
            if n0 is not None and n0.get('k') == 'CXXMemberCallExpr' and n0.get('fn') == 'Type::findDependency':
                return (('depends', truth),)
            return ()

        def is_link(x):
            return x.get('k') == 'BinaryOperator' and x.get('op') == '=' and (strip(x['c'][0]) or {}).get('n') == 'Type::BaseInfo::type'
        r = _p.analyse(b['body'], cond=cond, observe=is_link)
        for i, st in r.at.items():
            x = r.at_node[i]
            rhs = strip(x['c'][1])
            while rhs is not None and rhs.get('k') == 'ImplicitCastExpr' and rhs.get('c'):
                rhs = rhs['c'][0]
            if rhs is not None and rhs.get('k') == 'CXXNullPtrLiteralExpr':
                continue
            n += 1
            ok = ('depends', False) in st
            if not ok and rhs is not None and rhs.get('k') == 'DeclRefExpr':
                # `if (v && v->findDependency(t)) {..} else link = v;` : in the else branch either v is null (a null link) or the test was false
                from .common.facts import walk_parents
                from .C23 import conjuncts
                for y, parents in walk_parents(b['body']):
                    if y is x:
                        for p_ in reversed(parents):
                            if p_.get('k') == 'IfStmt' and p_.get('else') is not None and any(z is x for z in walk(p_['else'])):
                                cj = [strip(c_) for c_ in conjuncts(p_.get('cond'))]
                                dep = [c_ for c_ in cj if c_ is not None and c_.get('k') == 'CXXMemberCallExpr' and c_.get('fn') == 'Type::findDependency']
                                rest = [c_ for c_ in cj if c_ not in dep]
                                def is_v(c_):
                                    while c_ is not None and c_.get('k') == 'ImplicitCastExpr' and c_.get('c'):
                                        c_ = c_['c'][0]
                                    return c_ is not None and c_.get('k') == 'DeclRefExpr' and c_.get('di') == rhs.get('di')
                                if dep and all(is_v(c_) for c_ in rest) and all(any(z.get('di') == rhs.get('di') for z in walk(d_['c'][0])) for d_ in dep):
                                    ok = True
                                break
                        break
            ctx.ob('R13.6', 'base-link:%s' % f['name'], ok,
                   ('%s links a base class only after findDependency() was false' % f['name']) if ok else
                   ('%s assigns Type::BaseInfo::type at line %s on a path where Type::findDependency() has not ruled out a cycle: with `struct A; struct B : A {}; struct A : B {};` '
                    'the base-class graph becomes cyclic and the recursive hierarchy walkers overflow the stack' % (f['name'], x['l'])), '%s:%s' % (f['file'], x['l']))
    ctx.floor('R13.6 sites linking a base class', n, 2)
