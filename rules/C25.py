"""C25  Exit status reflects the reported findings (accounting on every path).

Decides: no finding reaches the user without passing the exit-code accounting, every component's
result flows into the process exit status, and every place that turns "a finding was reported" into
a non-zero result consults the --exitcode-suppressions list.  The "if and only if" on concrete runs
is not decided.

R25.1  CppCheckLogger::reportErr: every forward of a non-internal, unsuppressed finding is preceded on
       every path by the accounting statement (nofail consulted; mExitCode = 1 under
       !nofail.isSuppressed && !nomsg.isSuppressed); the safety-mode forwards set mExitCode as well.
R25.2  CppCheckExecutor::check_internal: the result of every executor's check(), of
       analyseWholeProgram(buildDir, ...) and of reportUnmatchedSuppressions flows into returnValue; the
       function returns settings.exitCode exactly under `returnValue != 0` and EXIT_SUCCESS otherwise;
       CppCheckExecutor::check returns EXIT_FAILURE when the command line cannot be parsed.
R25.3  each executor returns the accumulated per-file results (single: += over both loops; thread:
       accumulate over future::get(); process: CHILD_END adds the worker's result, the worker writes it).
R25.4  sibling agreement: every site that makes the run fail because of a finding consults
       Suppressions::nofail (CppCheckLogger::reportErr does; the other sites are checked).
"""
from .common.facts import walk, walk_parents, strip, strip_all, call_args, AnalysisBroken
from .common import paths
import re


def mentions(n, name):
    return any(y.get('n') == name for y in walk(n))


def run(ctx):
    F = ctx.facts
    r25_5(ctx)
    r25_6(ctx)
    for rid, t in [('R25.1', 'every forward of a finding passes the exit-code accounting'),
                   ('R25.2', 'all component results flow into the process exit status'),
                   ('R25.3', 'executors accumulate the per-file results'),
                   ('R25.4', 'every fail-on-finding site consults the exitcode suppressions')]:
        ctx.rule(rid, t)

    # ---- R25.1 ------------------------------------------------------------------------------------------
    lr = F.one('CppCheck::CppCheckLogger::reportErr')
    body = F.body(lr)['body']

    def is_call_on(n, fn, field):
        return n is not None and n.get('k') == 'CXXMemberCallExpr' and n.get('fn') == fn and n.get('c') and \
            any(y.get('k') == 'MemberExpr' and y.get('n') == field for y in walk(n['c'][0]))

    def cond(n, truth):
        n0 = strip(n)
        out = []
        if n0 is None:
            return out
        if is_call_on(n0, 'SuppressionList::isSuppressed', 'Suppressions::nofail'):
            out.append(('nofail-suppressed', truth))
        if is_call_on(n0, 'SuppressionList::isSuppressed', 'Suppressions::nomsg'):
            out.append(('nomsg-suppressed', truth))
        if n0.get('k') == 'BinaryOperator' and n0.get('op') in ('==', '!=') and mentions(n0, 'Severity::internal') and mentions(n0, 'ErrorMessage::severity'):
            out.append(('internal', (n0['op'] == '==') == truth))
        if n0.get('k') == 'MemberExpr' and n0.get('n') == 'Settings::safety':
            out.append(('safety', truth))
        return out

    def gen(n):
        out = []
        if is_call_on(n, 'SuppressionList::isSuppressed', 'Suppressions::nofail'):
            out.append('nofail-consulted')
        if n.get('k') == 'BinaryOperator' and n.get('op') == '=' and strip(n['c'][0]).get('n') == 'CppCheck::CppCheckLogger::mExitCode':
            out.append('exitcode-set')
        return out

    def observe(n):
        if n.get('k') == 'CXXMemberCallExpr' and n.get('fn') == 'ErrorLogger::reportErr':
            return True
        if n.get('k') == 'BinaryOperator' and n.get('op') == '=' and strip(n['c'][0]).get('n') == 'CppCheck::CppCheckLogger::mExitCode':
            return True
        return False

    res = paths.analyse(body, cond=cond, gen=gen, observe=observe)
    fw = sorted([(res.at_node[i], st) for i, st in res.at.items() if res.at_node[i].get('k') == 'CXXMemberCallExpr'], key=lambda x: x[0]['l'])
    sets = [(res.at_node[i], st) for i, st in res.at.items() if res.at_node[i].get('k') == 'BinaryOperator']
    ctx.floor('R25.1 forwards in CppCheckLogger::reportErr', len(fw), 3)
    for i, (n, st) in enumerate(fw):
        where = '%s:%s' % (lr['file'], n['l'])
        if ('internal', True) in st:
            ctx.ob('R25.1', 'forward#%d' % i, True, 'internal message (logChecker): not a finding, no accounting needed', where)
            continue
        if ('safety', True) in st:
            ok = 'exitcode-set' in st
            ctx.ob('R25.1', 'forward#%d' % i, ok, 'safety-mode forward of a critical finding happens after mExitCode = 1' if ok else
                   'safety-mode forward at line %s is not preceded by mExitCode = 1' % n['l'], where)
            continue
        ok = 'nofail-consulted' in st or paths.holds_after(body, n, 'nofail-consulted', gen=gen, cond=cond)
        ctx.ob('R25.1', 'forward#%d' % i, ok,
               'on every path through the forward at line %s the exit-code accounting is executed (nofail consulted)' % n['l'] if ok else
               'a finding is forwarded at line %s on a path that skips the exit-code accounting: it is printed but cannot make the run fail' % n['l'], where)
    # the accounting assignment itself is guarded by both suppression lists (and only by them)
    main_sets = [(n, st) for n, st in sets if ('safety', True) not in st]
    if not main_sets:
        ctx.ob('R25.1', 'accounting-stmt', False, 'CppCheckLogger::reportErr never sets mExitCode outside the safety-mode arm', '%s:%d' % (lr['file'], lr['line']))
    for i, (n, st) in enumerate(main_sets):
        ok = ('nofail-suppressed', False) in st and ('nomsg-suppressed', False) in st
        ctx.ob('R25.1', 'accounting-stmt#%d' % i, ok,
               'mExitCode = 1 is executed exactly when neither nofail nor nomsg suppresses the finding' if ok else
               'mExitCode = 1 at line %s is not guarded by !nofail.isSuppressed(..) && !nomsg.isSuppressed(..) (facts: %s)' % (n['l'], sorted(map(str, st))),
               '%s:%s' % (lr['file'], n['l']))

    # ---- R25.2 ------------------------------------------------------------------------------------------
    ci = F.one('CppCheckExecutor::check_internal')
    cb = F.body(ci)['body']
    rv = None
    for x in walk(cb):
        if x.get('k') == 'VarDecl' and x.get('n') == 'returnValue':
            rv = x['di']
    if rv is None:
        raise AnalysisBroken('check_internal: local returnValue not found')
    execs = []
    for x in walk(cb):
        if x.get('k') == 'VarDecl' and (x.get('t') or '') in ('SingleExecutor', 'ThreadExecutor', 'ProcessExecutor'):
            execs.append(x)
    ctx.floor('R25.2 executors constructed in check_internal', len(execs), 3)
    assigned_from = []
    for x in walk(cb):
        if x.get('k') in ('BinaryOperator', 'CompoundAssignOperator') and x.get('op') in ('=', '|=', '+=') and strip(x['c'][0]).get('di') == rv:
            assigned_from.append(x)
    for e in execs:
        ok = any(any(y.get('k') == 'CXXMemberCallExpr' and (y.get('fn') or '').endswith('::check') and strip(y['c'][0]['c'][0]).get('di') == e['di']
                     for y in walk(a['c'][1])) for a in assigned_from)
        ctx.ob('R25.2', 'executor:%s' % e['t'], ok, ('the result of %s::check() is stored in returnValue' % e['t']) if ok else
               ('the result of %s::check() never reaches returnValue: findings of that executor cannot change the exit status' % e['t']),
               '%s:%s' % (ci['file'], e['l']))
    wp = any(any((y.get('fn') or '') == 'CppCheck::analyseWholeProgram' for y in walk(a['c'][1])) for a in assigned_from)
    ctx.ob('R25.2', 'whole-program', wp, 'analyseWholeProgram(...) is combined into returnValue' if wp else
           'the result of CppCheck::analyseWholeProgram(buildDir, ...) is dropped: whole-program findings cannot make the run fail', '%s:%d' % (ci['file'], ci['line']))
    um = None
    for x in walk(cb):
        if x.get('k') == 'VarDecl' and x.get('init') is not None and any((y.get('fn') or '').endswith('reportUnmatchedSuppressions') for y in walk(x['init'])):
            um = x['di']
    um_ok = False
    if um is not None:
        def cond2(n, truth):
            n0 = strip(n)
            if n0 is not None and n0.get('k') == 'DeclRefExpr' and n0.get('di') == um:
                return (('unmatched', truth),)
            return ()
        r2 = paths.analyse(cb, cond=cond2, observe=lambda n: n in assigned_from)
        for i, st in r2.at.items():
            if ('unmatched', True) in st:
                um_ok = True
    ctx.ob('R25.2', 'unmatched-suppressions', um_ok, 'an unmatched suppression report makes returnValue non-zero' if um_ok else
           'the result of reportUnmatchedSuppressions does not reach returnValue', '%s:%d' % (ci['file'], ci['line']))

    def cond3(n, truth):
        n0 = strip(n)
        if n0 is not None and n0.get('k') == 'DeclRefExpr' and n0.get('di') == rv:
            return (('rv', truth),)
        if n0 is not None and n0.get('k') == 'BinaryOperator' and n0.get('op') in ('!=', '==', '>') and strip(n0['c'][0]).get('di') == rv and \
                strip(n0['c'][1]).get('k') == 'IntegerLiteral' and strip(n0['c'][1]).get('v') == '0':
            return (('rv', (n0['op'] in ('!=', '>')) == truth),)
        if n0 is not None and n0.get('k') == 'MemberExpr' and n0.get('n') == 'Settings::safety':
            return (('safety', truth),)
        return ()
    r3 = paths.analyse(cb, cond=cond3, observe=lambda n: n.get('k') == 'ReturnStmt')
    rets = [(n, st) for k_, n, st in r3.exits if k_ == 'return']
    ec = [(n, st) for n, st in rets if mentions(n, 'Settings::exitCode')]
    succ = [(n, st) for n, st in rets if any(y.get('mac') == 'EXIT_SUCCESS' or (y.get('k') == 'IntegerLiteral' and y.get('v') == '0') for y in walk(n)) and not mentions(n, 'Settings::exitCode')]
    ok = bool(ec) and all(('rv', True) in st for n, st in ec)
    ctx.ob('R25.2', 'return-exitcode', ok, 'settings.exitCode is returned exactly under returnValue != 0' if ok else
           'check_internal does not return settings.exitCode under `returnValue != 0`', '%s:%d' % (ci['file'], ci['line']))
    ok = bool(succ) and all(('rv', False) in st for n, st in succ if ('safety', True) not in st)
    ctx.ob('R25.2', 'return-success', ok, 'EXIT_SUCCESS is returned only when returnValue is 0' if ok else
           'check_internal returns success on a path where returnValue may be non-zero', '%s:%d' % (ci['file'], ci['line']))
    # invalid command line -> EXIT_FAILURE
    ck = F.one('CppCheckExecutor::check')
    kb = F.body(ck)['body']

    def cond4(n, truth):
        n0 = strip(n)
        if n0 is not None and n0.get('k') in ('CXXMemberCallExpr', 'CallExpr') and (n0.get('fn') or '').endswith('fillSettingsFromArgs'):
            return (('args-ok', truth),)
        return ()
    r4 = paths.analyse(kb, cond=cond4, observe=lambda n: n.get('k') == 'ReturnStmt')
    bad = [(n, st) for k_, n, st in r4.exits if k_ == 'return' and ('args-ok', False) in st]
    ok = bool(bad) and all(any(y.get('mac') == 'EXIT_FAILURE' or (y.get('k') == 'IntegerLiteral' and y.get('v') == '1') for y in walk(n)) for n, st in bad)
    ctx.ob('R25.2', 'invalid-cmdline', ok, 'an unparsable command line returns EXIT_FAILURE' if ok else
           'CppCheckExecutor::check does not return EXIT_FAILURE when fillSettingsFromArgs fails', '%s:%d' % (ck['file'], ck['line']))

    # ---- R25.3 ------------------------------------------------------------------------------------------
    se = F.one('SingleExecutor::check')
    sb = F.body(se)['body']
    adds = [x for x in walk(sb) if x.get('k') == 'CompoundAssignOperator' and x.get('op') == '+=' and
            any((y.get('fn') or '') == 'CppCheck::check' for y in walk(x['c'][1]))]
    calls = [x for x in walk(sb) if x.get('k') == 'CXXMemberCallExpr' and x.get('fn') == 'CppCheck::check']
    ok = len(adds) == len(calls) and len(calls) >= 2
    ctx.ob('R25.3', 'single', ok, 'SingleExecutor::check adds the result of every CppCheck::check call (%d) to its result' % len(calls) if ok else
           'SingleExecutor::check: %d CppCheck::check calls but %d accumulations: a file\'s result is dropped' % (len(calls), len(adds)),
           '%s:%d' % (se['file'], se['line']))
    te = F.one('ThreadExecutor::check')
    tb = F.body(te)['body']
    ok = any((y.get('fn') or '') == 'std::accumulate' for y in walk(tb)) and any(re.match(r'std::future<.*>::get$', y.get('fn') or '') for y in walk(tb))
    ctx.ob('R25.3', 'thread', ok, 'ThreadExecutor::check accumulates future::get() of every worker' if ok else
           'ThreadExecutor::check no longer sums the workers\' results (std::accumulate over future::get())', '%s:%d' % (te['file'], te['line']))
    tp = F.one('threadProc')
    pb = F.body(tp)['body']
    ok = any(x.get('k') == 'CompoundAssignOperator' and x.get('op') == '+=' and any((y.get('fn') or '').endswith('ThreadData::check') for y in walk(x['c'][1])) for x in walk(pb))
    ctx.ob('R25.3', 'threadProc', ok, 'threadProc adds every ThreadData::check result' if ok else 'threadProc drops the result of ThreadData::check',
           '%s:%d' % (tp['file'], tp['line']))
    hr = F.one('ProcessExecutor::handleRead')
    hb = F.body(hr)['body']
    ok = False
    for x in walk(hb):
        if x.get('k') == 'IfStmt' and x.get('cond') is not None and mentions(x['cond'], 'PipeWriter::CHILD_END') and x.get('then') is not None:
            if any(y.get('k') == 'CompoundAssignOperator' and y.get('op') == '+=' and strip(y['c'][0]).get('n') == 'result' for y in walk(x['then'])):
                ok = True
    ctx.ob('R25.3', 'process-child-end', ok, 'the CHILD_END message adds the worker\'s result to the parent\'s result' if ok else
           'the CHILD_END arm of ProcessExecutor::handleRead does not add the worker\'s result', '%s:%d' % (hr['file'], hr['line']))
    pe = F.one('ProcessExecutor::check')
    peb = F.body(pe)['body']
    ok = False
    for x in walk(peb):
        if x.get('k') == 'CXXMemberCallExpr' and (x.get('fn') or '').endswith('PipeWriter::writeEnd'):
            refs = [y['di'] for y in walk(x) if y.get('k') == 'DeclRefExpr' and y.get('dk') == 'Var' and (y.get('t') or '').startswith('unsigned')]
            chk = [y for y in walk(peb) if y.get('k') == 'CXXMemberCallExpr' and y.get('fn') == 'CppCheck::check']
            stored = [a for a in walk(peb) if a.get('k') == 'BinaryOperator' and a.get('op') == '=' and strip(a['c'][0]).get('di') in refs and
                      any(y.get('fn') == 'CppCheck::check' for y in walk(a['c'][1]))]
            ok = bool(refs) and len(chk) >= 2 and len(stored) == len(chk)
    ctx.ob('R25.3', 'process-worker-writes-result', ok, 'the worker sends its CppCheck::check result with writeEnd' if ok else
           'the forked worker does not send its check result to the parent', '%s:%d' % (pe['file'], pe['line']))

    # ---- R25.4 ------------------------------------------------------------------------------------------
    # sites that turn a reported finding into failure: the logger (checked above) and code that sets returnValue from a "reported" flag
    ru = F.one('CppCheckExecutor::reportUnmatchedSuppressions')
    reach = F.reachable([ru], stop=lambda f: f['name'].endswith('::reportErr'))
    consults = any(a['n'] == 'Suppressions::nofail' for k, (f, _, _) in reach.items() if not f['name'].endswith('::reportErr') for a in f['acc'])
    # or the caller tests nofail before failing
    caller_consults = any(a['n'] == 'Suppressions::nofail' for a in ci['acc'])
    ctx.ob('R25.4', 'nofail:reportUnmatchedSuppressions', consults or caller_consults,
           'the unmatchedSuppression path consults the exitcode suppressions' if consults or caller_consults else
           'CppCheckExecutor::reportUnmatchedSuppressions reports findings directly to the logger and its boolean result makes check_internal return '
           'settings.exitCode, but neither consults Suppressions::nofail: an unmatchedSuppression listed in --exitcode-suppressions still fails the run',
           '%s:%d' % (ru['file'], ru['line']))
    rc = F.one('ProcessExecutor::reportInternalChildErr')
    ctx.note('ProcessExecutor::reportInternalChildErr (cppcheckError) does not touch the result; the failure is counted by handleRead on the premature end of pipe (C21)')


def r25_5(ctx):
    """R25.5  the per-file exit-code accumulator is cleared only where a file's accounting starts: CppCheckLogger::resetExitCode() is called from the prologue of
    CppCheck::checkInternal and nowhere else.  (CppCheck::analyseWholeProgram returns mLogger->exitcode(); a finding reported a second time is dropped by the
    duplicate filter *before* the accounting statement, so its contribution exists only as the value left from its first report - clearing the accumulator in
    between loses it.)"""
    F = ctx.facts
    ctx.rule('R25.5', 'the exit-code accumulator is reset only at the start of a file\'s analysis')
    callers = []
    for f in F.all_fns():
        for c in f['calls']:
            if c['f'].split('(')[0] == 'CppCheck::CppCheckLogger::resetExitCode':
                callers.append((f, c))
    ctx.floor('R25.5 callers of CppCheckLogger::resetExitCode', len(callers), 1)
    for f, c in callers:
        ok = f['name'] == 'CppCheck::checkInternal'
        ctx.ob('R25.5', 'reset-exitcode:%s' % f['name'], ok, ('%s resets the accumulator where a file\'s analysis starts' % f['name']) if ok else
               ('%s calls CppCheckLogger::resetExitCode() (line %s): a whole-program finding that was already reported once is dropped as duplicate before the accounting statement, '
                'so after this reset the run exits 0 although the finding was printed' % (f['name'], c.get('l'))), '%s:%s' % (f['file'], c.get('l')))


def r25_6(ctx):
    """R25.6  the per-file result is the accumulator: a return of CppCheck::checkInternal that follows a call which can report a finding returns
    mLogger->exitcode(), not a constant.  (The executors add up the per-file results; a literal 0 after a report makes the run exit 0 although a finding was
    printed, unless another component happens to return the stale accumulator.)"""
    from .C20 import may_report_set
    F = ctx.facts
    ctx.rule('R25.6', 'checkInternal returns the exit-code accumulator on every path that may have reported')
    ci = F.one('CppCheck::checkInternal')
    body = F.body(ci)['body']
    reporters = may_report_set(F)
    # calls that can emit a finding *of this analysis* directly: anything reaching ErrorLogger::reportErr except pure output helpers
    def is_reporter(n):
        if n.get('k') in ('CallExpr', 'CXXMemberCallExpr') and n.get('fid'):
            fn = n.get('fn') or ''
            if fn.endswith('::reportOut') or fn.startswith(('std::', 'Path::', 'Settings::', 'Timer')):
                return False
            for g in F.resolve(ci, n['fid'], n.get('virt', False)):
                if F.key(g) in reporters:
                    return True
        return False
    m = paths.Must(kill=lambda n: ('no-report-yet',) if is_reporter(n) else (), observe=lambda n: n.get('k') == 'ReturnStmt', lambda_inline=True)
    m.stmt(body, frozenset({'no-report-yet'}))
    rets = sorted(((m.res.at_node[i], st) for i, st in m.res.at.items()), key=lambda t: t[0]['l'])
    ctx.floor('R25.6 return statements of checkInternal', len(rets), 6)
    for i, (n, st) in enumerate(rets):
        uses_acc = any(y.get('k') == 'CXXMemberCallExpr' and (y.get('fn') or '').endswith('CppCheckLogger::exitcode') for y in walk(n))
        if uses_acc:
            ctx.ob('R25.6', 'return#%d' % i, True, 'the return at line %s yields mLogger->exitcode()' % n['l'], '%s:%s' % (ci['file'], n['l']))
            continue
        ok = 'no-report-yet' in st
        ctx.ob('R25.6', 'return#%d' % i, ok, ('the constant returned at line %s is reached only before anything can have been reported' % n['l']) if ok else
               ('CppCheck::checkInternal returns a constant at line %s on a path that has called a function which can report a finding: the finding is printed but this '
                'file contributes 0 to the exit status' % n['l']), '%s:%s' % (ci['file'], n['l']))
