"""C05  Invariance under meaning-preserving rewrites (layout clause only).

Decides: no analysis decision outside the tabled sites depends on a token's line or column.  This is a
necessary condition for the whitespace / blank-line / comment-line rewrite family: a branch on linenr()
has two layouts of the same program on its two sides.  The renaming and reordering families are not
decided (reads of tok->str() cannot be separated syntactically from legitimate library lookups).

R05.1  every call of Token::linenr() / Token::column() in lib/ whose value (directly or through a local int that
       is only compared) is an operand of a comparison is a *layout decision*.  The enclosing function must be in
       one of the tables:
         LAYOUT_SENSITIVE  - the three checks the property itself excludes;
         LINE_SEMANTICS    - code for which lines are part of the input language (suppression comments, directives,
                             single-line asm) or that only formats output;
         ORDER_IDIOM       - comparators that order two tokens lexicographically by (file, line, column), a total
                             order every rewrite of the family preserves.
       Any other function is reported with the line.  Uses that only build messages, locations, dump ids or copy
       positions are not decisions and are ignored.
R05.2  token lists are rendered with line breaks / line numbers / file names only by the printers of the Token class.
"""
import re
from .common.facts import walk, walk_parents, strip, call_args, AnalysisBroken

POS = {'Token::linenr', 'Token::column'}
LAYOUT_SENSITIVE = {
    'CheckOther::checkSuspiciousSemicolon': 'excluded by the property: "; {" on the same line is the heuristic itself',
    'CheckOther::checkUnreachableCode': 'excluded by the property: same-line statements only lower the certainty',
    'CheckOther::checkCommaSeparatedReturn': 'excluded by the property: the check is about a comma followed by a line break',
}
LINE_SEMANTICS = {
    'SuppressionList::markUnmatchedInlineSuppressionsAsChecked': 'inline suppressions are addressed by line by specification',
    'Tokenizer::simplifyAsm': 'MSVC `__asm` statements end at the end of the line: the line break is syntax',
    'Tokenizer::hasIfdef': 'compares token lines with preprocessor directive lines; directives are line-based syntax',
    'Tokenizer::isPacked': 'compares token lines with #pragma pack directive lines',
    'Token::printLines': 'debug output formatting',
    'Token::stringifyList': 'output formatting (line breaks of the printed token list)',
    'Token::printValueFlow': 'dump / debug output grouping by line',
    'TokenList::copyTokens': 'copies positions to the new tokens',
    'TemplateSimplifier::printOut': 'debug output',
}
ORDER_IDIOM = {'CompareVariables::operator()': 'orders variables by (fileIndex, linenr, column)'}


def run(ctx):
    F = ctx.facts
    ctx.rule('R05.1', 'comparisons on token line / column occur only in the tabled functions')
    ncalls = 0
    ndec = 0
    seen_tab = set()
    for f in F.all_fns():
        if not f['file'].startswith('lib/'):
            continue
        if not any(c['f'].split('(')[0] in POS for c in f['calls']):
            continue
        b = F.body(f)
        if b is None:
            continue
        # locals initialised from a position value
        pos_locals = set()
        for x in walk(b['body']):
            if x.get('k') == 'VarDecl' and x.get('init') is not None and any(y.get('k') == 'CXXMemberCallExpr' and y.get('fn') in POS for y in walk(x['init'])) \
                    and (x.get('t') or '').replace('const ', '') in ('int', 'unsigned int', 'nonneg int', 'std::size_t', 'long'):
                pos_locals.add(x['di'])
        sites = []
        for x, parents in walk_parents(b['body']):
            is_pos = x.get('k') == 'CXXMemberCallExpr' and x.get('fn') in POS and not [a for a in call_args(x) if a.get('k') != 'DefaultArg']
            is_loc = x.get('k') == 'DeclRefExpr' and x.get('di') in pos_locals
            if not (is_pos or is_loc):
                continue
            if is_pos:
                ncalls += 1
            for p in reversed(parents):
                k = p.get('k')
                if k in ('ImplicitCastExpr', 'ParenExpr', 'CStyleCastExpr', 'CXXStaticCastExpr', 'CXXFunctionalCastExpr'):
                    continue
                if k == 'BinaryOperator' and p.get('op') in ('+', '-'):
                    continue
                if k == 'BinaryOperator' and p.get('op') in ('<', '>', '<=', '>=', '==', '!='):
                    sites.append(p)
                break
        lines = sorted({s['l'] for s in sites})
        if not lines:
            continue
        ndec += len(lines)
        name = f['name']
        where = '%s:%s' % (f['file'], lines[0])
        for tab, label in ((LAYOUT_SENSITIVE, 'layout-sensitive by definition of the property'), (LINE_SEMANTICS, 'line semantics / output only'),
                           (ORDER_IDIOM, 'total order on positions')):
            if name in tab:
                seen_tab.add(name)
                ctx.ob('R05.1', 'decision:%s' % name, True, '%s compares token positions (lines %s): %s - %s' % (name, lines, label, tab[name]), where)
                break
        else:
            ctx.ob('R05.1', 'decision:%s' % name, False,
                   '%s branches on a comparison of token line/column numbers at line(s) %s: two layouts of the same token sequence (statement on one line / on several '
                   'lines) take different branches, so a finding can appear or disappear when only whitespace changes' % (name, lines), where)
    r05_2(ctx)
    r05_3(ctx)
    ctx.floor('R05.1 linenr()/column() calls in lib/', ncalls, 80)
    ctx.floor('R05.1 position comparisons', ndec, 10)
    for tab in (LAYOUT_SENSITIVE,):
        for name in tab:
            if name not in seen_tab:
                ctx.note('table entry %s no longer compares positions (can be removed)' % name)


def r05_2(ctx):
    """R05.2  layout-carrying text: a token list rendered with line breaks, line numbers or file names encodes the layout; such text may be printed
    but not produced by analysis code (where it ends up in comparisons or messages that decide or change findings).  Outside the Token class's own
    printers no function sets stringifyOptions::{linenumbers,linebreaks,files}, calls the forDebug*/forPrintOut presets, or calls the five-bool
    stringifyList overload with a layout flag that is not literally false."""
    F = ctx.facts
    ctx.rule('R05.2', 'analysis code does not render token lists with layout (line breaks / numbers / files)')
    LAYOUT = ('linenumbers', 'linebreaks', 'files')
    PRINTERS = ('Token::', 'Tokenizer::printDebugOutput', 'TemplateSimplifier::printOut', 'SymbolDatabase::printOut', 'Tokenizer::dump')
    n = 0
    bad = 0
    for f in F.all_fns():
        if not f['file'].startswith('lib/'):
            continue
        hits = []
        for a in f['acc']:
            if a['n'].startswith('Token::stringifyOptions::') and a['n'].split('::')[-1] in LAYOUT and a['a'] != 'r':
                hits.append(('sets stringifyOptions::%s' % a['n'].split('::')[-1], a['l']))
        for c in f['calls']:
            if 'stringifyOptions::forDebug' in c['f'] or 'stringifyOptions::forPrintOut' in c['f']:
                hits.append(('uses the preset %s' % c['f'].split('(')[0].split('::')[-1], c.get('l')))
        if any(c['f'].startswith('Token::stringifyList(bool') for c in f['calls']):
            b = F.body(f)
            for x in walk((b or {}).get('body') or {}):
                if x.get('k') == 'CXXMemberCallExpr' and (x.get('fid') or '').startswith('Token::stringifyList(bool'):
                    args = call_args(x)
                    for i, nm in ((2, 'linenumbers'), (3, 'linebreaks'), (4, 'files')):
                        if i < len(args):
                            a0 = strip(args[i])
                            if not (a0 is not None and a0.get('k') == 'CXXBoolLiteralExpr' and a0.get('v') is False):
                                hits.append(('passes %s to stringifyList' % nm, x['l']))
        if not hits:
            continue
        n += 1
        if f['name'].startswith(PRINTERS):
            ctx.ob('R05.2', 'layout-text:%s' % f['name'], True, '%s %s: a printer of the Token class / debug output' % (f['name'], hits[0][0]), '%s:%s' % (f['file'], hits[0][1]))
            continue
        bad += 1
        ctx.ob('R05.2', 'layout-text:%s' % f['name'], False,
               '%s %s (line %s): the resulting text differs between two layouts of the same tokens, and this function is not a printer - what is compared with it or '
               'put into a finding changes when only whitespace changes' % (f['name'], hits[0][0], hits[0][1]), '%s:%s' % (f['file'], hits[0][1]))
    ctx.floor('R05.2 functions producing layout-carrying text', n, 3)


def r05_3(ctx):
    """R05.3  line numbers are only compared within one file: in the functions that may compare positions (the tables of R05.1), a comparison between a token's
    line and a line that does not come from a token (a directive's line, a suppression's line, a stored pair) is conjoined with - or dominated by - a test that
    both belong to the same file.  Without it the lines of two different files are compared, and inserting blank or comment lines in one file changes the result
    for code whose own layout did not change."""
    F = ctx.facts
    ctx.rule('R05.3', 'a token line is compared with a non-token line only together with a same-file test')
    TABLED = set(LAYOUT_SENSITIVE) | set(LINE_SEMANTICS) | set(ORDER_IDIOM)
    n = 0

    def filey(e):
        for y in walk(e):
            nm = (y.get('n') or y.get('fn') or '')
            if y.get('k') in ('MemberExpr', 'CXXMemberCallExpr', 'CallExpr', 'DeclRefExpr') and re.search(r'(?i)file', nm):
                return True
        return False
    for f in F.all_fns():
        if f['name'] not in TABLED or not f['file'].startswith('lib/'):
            continue
        b = F.body(f)
        if b is None:
            continue
        pos_locals = {x['di'] for x in walk(b['body']) if x.get('k') == 'VarDecl' and x.get('init') is not None and
                      any(y.get('k') == 'CXXMemberCallExpr' and y.get('fn') in POS for y in walk(x['init']))}
        # locals that are assigned a token line somewhere in the function hold token lines
        for x in walk(b['body']):
            if x.get('k') == 'BinaryOperator' and x.get('op') == '=' and (strip(x['c'][0]) or {}).get('k') == 'DeclRefExpr' and \
                    any(y.get('k') == 'CXXMemberCallExpr' and y.get('fn') in POS for y in walk(x['c'][1])):
                pos_locals.add(strip(x['c'][0])['di'])

        def tokenish(e):
            e0 = e
            while e0 is not None and e0.get('k') in ('ImplicitCastExpr', 'ParenExpr', 'CStyleCastExpr', 'CXXStaticCastExpr', 'CXXFunctionalCastExpr') and e0.get('c'):
                e0 = e0['c'][0]
            if e0 is None:
                return False
            if e0.get('k') == 'CXXMemberCallExpr' and e0.get('fn') in POS:
                return True
            if e0.get('k') == 'DeclRefExpr' and e0.get('di') in pos_locals:
                return True
            if e0.get('k') == 'BinaryOperator' and e0.get('op') in ('+', '-'):
                return tokenish(e0['c'][0]) or tokenish(e0['c'][1])
            return False
        for x, parents in walk_parents(b['body']):
            if x.get('k') != 'BinaryOperator' or x.get('op') not in ('<', '>', '<=', '>=', '==', '!='):
                continue
            l, r = x['c'][0], x['c'][1]
            tl, tr = tokenish(l), tokenish(r)
            if tl == tr:
                continue            # token vs token (same stream) or no token line at all
            other = r if tl else l
            o0 = strip(other)
            while o0 is not None and o0.get('k') in ('ImplicitCastExpr', 'ParenExpr', 'CXXStaticCastExpr', 'CStyleCastExpr') and o0.get('c'):
                o0 = o0['c'][0]
            if o0 is None or o0.get('k') in ('IntegerLiteral',):
                continue
            n += 1
            # the whole boolean expression around the comparison, and the conditions of the enclosing ifs
            top = x
            conds = []
            for p in reversed(parents):
                if p.get('k') in ('BinaryOperator',) and p.get('op') in ('&&', '||') or p.get('k') in ('ParenExpr', 'ImplicitCastExpr', 'UnaryOperator'):
                    top = p
                    continue
                break
            conds.append(top)
            for p in parents:
                if p.get('k') == 'IfStmt' and p.get('cond') is not None and not any(z is x for z in walk(p['cond'])):
                    conds.append(p['cond'])
            same_file = False
            for c in conds:
                for y in walk(c):
                    if (y.get('k') == 'BinaryOperator' and y.get('op') == '==') or (y.get('k') == 'CXXOperatorCallExpr' and y.get('op') == '=='):
                        if filey(y):
                            same_file = True
            ctx.ob('R05.3', 'cross-line:%s:%d' % (f['name'], n), same_file,
                   ('%s compares a token line with a stored line together with a same-file test' % f['name']) if same_file else
                   ('%s compares a token\'s line with a line that does not come from a token (line %s) and neither that condition nor an enclosing one tests that both lines '
                    'belong to the same file: the lines of two different files are compared, so blank or comment lines added to one file change the result for another'
                    % (f['name'], x['l'])), '%s:%s' % (f['file'], x['l']))
    ctx.floor('R05.3 comparisons of a token line with a non-token line', n, 4)
