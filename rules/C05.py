"""C05  Invariance under meaning-preserving rewrites (layout clause only).

Decides: no analysis decision outside the tabled sites depends on a token's line or column.  This is a
necessary condition for the whitespace / blank-line / comment-line rewrite family: a branch on linenr()
has two layouts of the same program on its two sides.  The renaming and reordering families are not
decided (reads of tok->str() cannot be separated syntactically from legitimate library lookups).

R05.1  every call of Token::linenr() / Token::column() in lib/ whose value (directly or through a local int that
       is only compared) is an operand of a comparison is a *layout decision*.  The enclosing function must be in
       one of the tables:
         LAYOUT_SENSITIVE  - the three checks the property itself excludes;
         LINE_SEMANTICS    - code for which lines are part of the input language (suppression comments, directives,
                             single-line asm) or that only formats output;
         ORDER_IDIOM       - comparators that order two tokens lexicographically by (file, line, column), a total
                             order every rewrite of the family preserves.
       Any other function is reported with the line.  Uses that only build messages, locations, dump ids or copy
       positions are not decisions and are ignored.
"""
from .common.facts import walk, walk_parents, strip, call_args, AnalysisBroken

POS = {'Token::linenr', 'Token::column'}
LAYOUT_SENSITIVE = {
    'CheckOther::checkSuspiciousSemicolon': 'excluded by the property: "; {" on the same line is the heuristic itself',
    'CheckOther::checkUnreachableCode': 'excluded by the property: same-line statements only lower the certainty',
    'CheckOther::checkCommaSeparatedReturn': 'excluded by the property: the check is about a comma followed by a line break',
}
LINE_SEMANTICS = {
    'SuppressionList::markUnmatchedInlineSuppressionsAsChecked': 'inline suppressions are addressed by line by specification',
    'Tokenizer::simplifyAsm': 'MSVC `__asm` statements end at the end of the line: the line break is syntax',
    'Tokenizer::hasIfdef': 'compares token lines with preprocessor directive lines; directives are line-based syntax',
    'Tokenizer::isPacked': 'compares token lines with #pragma pack directive lines',
    'Token::printLines': 'debug output formatting',
    'Token::stringifyList': 'output formatting (line breaks of the printed token list)',
    'Token::printValueFlow': 'dump / debug output grouping by line',
    'TokenList::copyTokens': 'copies positions to the new tokens',
    'TemplateSimplifier::printOut': 'debug output',
}
ORDER_IDIOM = {'CompareVariables::operator()': 'orders variables by (fileIndex, linenr, column)'}


def run(ctx):
    F = ctx.facts
    ctx.rule('R05.1', 'comparisons on token line / column occur only in the tabled functions')
    ncalls = 0
    ndec = 0
    seen_tab = set()
    for f in F.all_fns():
        if not f['file'].startswith('lib/'):
            continue
        if not any(c['f'].split('(')[0] in POS for c in f['calls']):
            continue
        b = F.body(f)
        if b is None:
            continue
        # locals initialised from a position value
        pos_locals = set()
        for x in walk(b['body']):
            if x.get('k') == 'VarDecl' and x.get('init') is not None and any(y.get('k') == 'CXXMemberCallExpr' and y.get('fn') in POS for y in walk(x['init'])) \
                    and (x.get('t') or '').replace('const ', '') in ('int', 'unsigned int', 'nonneg int', 'std::size_t', 'long'):
                pos_locals.add(x['di'])
        sites = []
        for x, parents in walk_parents(b['body']):
            is_pos = x.get('k') == 'CXXMemberCallExpr' and x.get('fn') in POS and not [a for a in call_args(x) if a.get('k') != 'DefaultArg']
            is_loc = x.get('k') == 'DeclRefExpr' and x.get('di') in pos_locals
            if not (is_pos or is_loc):
                continue
            if is_pos:
                ncalls += 1
            for p in reversed(parents):
                k = p.get('k')
                if k in ('ImplicitCastExpr', 'ParenExpr', 'CStyleCastExpr', 'CXXStaticCastExpr', 'CXXFunctionalCastExpr'):
                    continue
                if k == 'BinaryOperator' and p.get('op') in ('+', '-'):
                    continue
                if k == 'BinaryOperator' and p.get('op') in ('<', '>', '<=', '>=', '==', '!='):
                    sites.append(p)
                break
        lines = sorted({s['l'] for s in sites})
        if not lines:
            continue
        ndec += len(lines)
        name = f['name']
        where = '%s:%s' % (f['file'], lines[0])
        for tab, label in ((LAYOUT_SENSITIVE, 'layout-sensitive by definition of the property'), (LINE_SEMANTICS, 'line semantics / output only'),
                           (ORDER_IDIOM, 'total order on positions')):
            if name in tab:
                seen_tab.add(name)
                ctx.ob('R05.1', 'decision:%s' % name, True, '%s compares token positions (lines %s): %s - %s' % (name, lines, label, tab[name]), where)
                break
        else:
            ctx.ob('R05.1', 'decision:%s' % name, False,
                   '%s branches on a comparison of token line/column numbers at line(s) %s: two layouts of the same token sequence (statement on one line / on several '
                   'lines) take different branches, so a finding can appear or disappear when only whitespace changes' % (name, lines), where)
    ctx.floor('R05.1 linenr()/column() calls in lib/', ncalls, 80)
    ctx.floor('R05.1 position comparisons', ndec, 10)
    for tab in (LAYOUT_SENSITIVE,):
        for name in tab:
            if name not in seen_tab:
                ctx.note('table entry %s no longer compares positions (can be removed)' % name)
