"""C14  Dump output is well-formed and self-consistent (escaping + writer/reader agreement).

R14.1  XMLESC: in every function that builds the --dump markup, each run-time operand placed in an
       attribute value is arithmetic, std::to_string / MathLib::toString, ErrorLogger::toxml(...),
       id_string(...) (pointer ids), bool_to_string, or a call whose every return is a string
       literal (enum-to-string helpers; verified by evaluating the callee).  Raw std::string operands
       are reported with the element, attribute and operand.
R14.2  reference agreement with addons/cppcheckdata.py (Python ast): for every dump element that the
       Python parser maps to a class, each attribute the class reads is written by the C++ writers
       under that element name, every attribute whose value is an id_string(...) reference is read,
       and every *Id field is resolved in setId().
R14.3  closure of deferred collections: when a writer emits the defining elements of a class from a local collection
       (SymbolDatabase::printXml: <var id=...> from `variables`), every local pointer of that class whose id is written
       as a reference attribute is added to that collection unconditionally in the block that writes the reference.
Not decided: symmetric bracket links / AST forest shape (properties of the tokenizer's data).
"""
import ast
import re
import collections

from .common.facts import walk, walk_parents, strip, strip_all, call_args, AnalysisBroken
from .common import xmlmodel
from .common.reports import Reports

ROOTS = ['Tokenizer::dump', 'Tokenizer::dumpTypedefInfo', 'Preprocessor::dump', 'SuppressionList::dump', 'createDumpFile',
         'CppCheck::getDumpFileContentsRawTokens', 'CppCheck::getLibraryDumpData', 'SymbolDatabase::printXml',
         'Token::printValueFlow', 'ValueType::dump', 'TemplateSimplifier::dump', 'CppCheck::checkInternal', 'CppCheck::checkClang']
SAFE = ('call:ErrorLogger::toxml', 'call:std::to_string', 'call:id_string', 'call:MathLib::toString', 'call:bool_to_string')

# raw string operands that cannot contain markup characters for a value reason (read and confirmed)
VALUE_SAFE = {
    ('Preprocessor::dump', 'macro', 'name'): 'macro names are identifier tokens (simplecpp only records names for which Token::name is set)',
    ('Tokenizer::dump', 'token', 'macroName'): 'Token::getMacroName() is the identifier of the expanded macro',
    ('Tokenizer::dumpTypedefInfo', 'info', 'name'): 'typedef names are identifier tokens',
}
# raw string operands that are not decided by this rule (no failing input known, but no value argument either)
UNDECIDED = {
    ('Tokenizer::dump', 'token', 'originalName'): 'Token::originalName() holds the pre-simplification spelling of a token (typedef name, "->", alternative operator spelling); no input found that puts < or & there',
    ('Tokenizer::dump', 'f', 'name'): 'container function names come from the (XML-decoded) library configuration; shipped cfg files use identifiers',
    ('Tokenizer::dumpTypedefInfo', 'info', 'originalName'): 'spelling of the typedef\'d type; written only when non-empty',
}
PY = 'addons/cppcheckdata.py'
# elements whose start tag embeds attribute fragments produced by other functions (ValueType::dump)
FRAGMENT_HOSTS = {'token'}


def run(ctx):
    F = ctx.facts
    ctx.rule('R14.1', 'run-time operands in dump attribute values are escaped (toxml), numeric, ids, or literal-valued')
    ctx.rule('R14.2', 'attributes read by addons/cppcheckdata.py are written by the C++ dump writers under the same element; '
                      'id references written are read and resolved')
    R = Reports(F)
    roots = []
    for n in ROOTS:
        roots += F.find(n)
    if len(roots) < 10:
        raise AnalysisBroken('dump writer anchors: only %d of %d found' % (len(roots), len(ROOTS)))
    reach = F.reachable([r for r in roots if r['name'] not in ('CppCheck::checkInternal', 'CppCheck::checkClang')])
    for r in roots:
        reach.setdefault(F.key(r), (r, None, None))
    W = xmlmodel.Writer(F, is_writer=lambda fn: True, max_depth=0)
    r14_4(ctx, F, set(reach))

    def literal_valued(desc, node, f):
        if not desc.startswith('call:'):
            return False
        n = strip_all(node)
        for g in F.resolve(f, n.get('fid') or ''):
            if g['file'].startswith('lib/'):
                r = R.ret_eval(g, [frozenset(['?'])] * len(g['params']))
                if r and '?' not in r:
                    return True
        return False

    written = collections.defaultdict(dict)     # tag -> attr -> set(kinds)
    orphans = {}
    tags_of_fn = {}
    els_of_fn = []
    nops = 0
    nwriters = 0
    for k, (f, _, _) in sorted(reach.items()):
        if not f['file'].startswith('lib/'):
            continue
        parts = W.parts_of_function(f)
        if not any(p[0] == 'lit' and '="' in p[1] for p in parts):
            continue
        els = xmlmodel.parse_markup(parts)
        if not els:
            continue
        nwriters += 1
        els_of_fn.append((f, els))
        tags_of_fn[F.key(f)] = [e_['tag'] for e_ in els if not e_['tag'].startswith('#')]
        own_tags = [e_['tag'] for e_ in els if not e_['tag'].startswith('#')]
        for e in els:
            if e['tag'] == '#text':
                continue
            if e['tag'] == '#orphan':
                orphans[F.key(f)] = (f, e)
            written[e['tag']].setdefault('#', set())
            for a, v in e['attrs'].items():
                kinds = written[e['tag']].setdefault(a, set())
                if not v['dyn']:
                    kinds.add('literal')
                for p in v['dyn']:
                    if not p:
                        continue
                    nops += 1
                    d = p[1]
                    kinds.add(d)
                    key3 = (f['name'], e['tag'], a)
                    okey = 'esc:%s:%s@%s' % (f['name'], e['tag'], a)
                    where = '%s:%s' % (f['file'], p[3].get('l'))
                    if d == 'arith' or d.startswith(SAFE) or literal_valued(d, p[3], f):
                        ctx.ob('R14.1', okey, True, '<%s %s> gets %s' % (e['tag'], a, d), where)
                    elif key3 in VALUE_SAFE:
                        ctx.ob('R14.1', okey, True, '<%s %s> gets a raw string that cannot contain markup: %s' % (e['tag'], a, VALUE_SAFE[key3]), where)
                    elif key3 in UNDECIDED:
                        ctx.note('not decided: <%s %s> in %s gets raw %s: %s' % (e['tag'], a, f['name'], d, UNDECIDED[key3]))
                    else:
                        ctx.ob('R14.1', okey, False,
                               'attribute %s of <%s> written by %s gets the raw run-time string %s without ErrorLogger::toxml(): a value containing '
                               '<, & or " makes the dump ill-formed' % (a, e['tag'], f['name'], d), where)
    # attribute fragments written outside a start tag belong to the start tags of the callers
    for gk, (g, oe) in orphans.items():
        for fk, tags in tags_of_fn.items():
            f = reach[fk][0]
            if any(c['f'] == g['id'] for c in f['calls']):
                for t in tags:
                    if t not in FRAGMENT_HOSTS:
                        continue
                    for a, v in oe['attrs'].items():
                        kinds = written[t].setdefault(a, set())
                        kinds.update(p_[1] for p_ in v['dyn'] if p_)
    ctx.floor('R14.1 dump writer functions with markup', nwriters, 8)
    ctx.floor('R14.1 run-time operands in attribute values', nops, 100)

    # ---- R14.3 deferred element collections are closed under the references written -------------------------------
    ctx.rule('R14.3', 'every object whose id is written as a reference is put into the collection its defining element is later emitted from')
    ndeferred = 0
    for f, els in els_of_fn:
        body = F.body(f)['body']
        par = {}
        for x, parents in walk_parents(body):
            par[id(x)] = parents

        def operand(p):
            """(pointee type, root DeclRefExpr or None) of an id_string(...) operand"""
            n = p[3]
            arg = call_args(n)[0] if call_args(n) else None
            t = None
            x = arg
            while x is not None and x.get('k') in ('ImplicitCastExpr', 'ParenExpr') and x.get('c'):
                if x.get('ck') == 'BitCast':
                    t = x['c'][0].get('t')
                x = x['c'][0]
            return t, x

        deferred = {}    # pointee type -> (collection di, name, line)
        for e in els:
            for p in e['attrs'].get('id', {}).get('dyn', ()):
                if not p or p[1] != 'call:id_string':
                    continue
                t, root = operand(p)
                if root is None or root.get('k') != 'DeclRefExpr':
                    continue
                for anc in reversed(par.get(id(p[3]), ())):
                    if anc.get('k') == 'CXXForRangeStmt' and anc.get('var') is not None and anc['var'].get('di') == root.get('di'):
                        rng = strip(anc.get('range')) if anc.get('range') else None
                        while rng is not None and rng.get('k') in ('ImplicitCastExpr',) and rng.get('c'):
                            rng = rng['c'][0]
                        if rng is not None and rng.get('k') == 'DeclRefExpr' and rng.get('dk') == 'Var' and any(
                                d.get('k') == 'VarDecl' and d.get('di') == rng.get('di') for d in walk(body)):
                            deferred[t] = (rng['di'], rng.get('n'), anc['l'], e['tag'])
                        break
        for t, (cdi, cname, cline, ctag) in deferred.items():
            ndeferred += 1
            for e in els:
                for an, v in e['attrs'].items():
                    if an == 'id':
                        continue
                    for p in v['dyn']:
                        if not p or p[1] != 'call:id_string':
                            continue
                        t2, root = operand(p)
                        if t2 != t or root is None or root.get('k') != 'DeclRefExpr' or root.get('dk') not in ('Var',):
                            continue
                        # innermost compound statement around the reference write
                        blk = next((a for a in reversed(par.get(id(p[3]), ())) if a.get('k') == 'CompoundStmt'), None)
                        ins = False
                        def inserts(s0):
                            return s0 is not None and s0.get('k') == 'CXXMemberCallExpr' and (s0.get('fn') or '').split('::')[-1] in ('insert', 'push_back', 'emplace', 'emplace_back') and \
                                any(y.get('di') == cdi for y in walk(s0['c'][0])) and any(y.get('di') == root.get('di') for a_ in call_args(s0) for y in walk(a_))

                        def first_seen_test(c):
                            """`S.insert(E).second` with the same E: true exactly when E is new, so `if (S.insert(E).second) C.push_back(E);` keeps E in C"""
                            c = strip(c)
                            if c is None or c.get('k') != 'MemberExpr' or not (c.get('n') or '').endswith('::second'):
                                return False
                            call = strip(c['c'][0]) if c.get('c') else None
                            while call is not None and call.get('k') in ('MaterializeTemporaryExpr', 'ImplicitCastExpr', 'CXXBindTemporaryExpr') and call.get('c'):
                                call = strip(call['c'][0])
                            return call is not None and call.get('k') == 'CXXMemberCallExpr' and (call.get('fn') or '').endswith('::insert') and \
                                any(y.get('di') == root.get('di') for a_ in call_args(call) for y in walk(a_))
                        for st in (blk or {}).get('c', ()):
                            s0 = strip(st)
                            if s0.get('k') == 'IfStmt' and s0.get('else') is None and first_seen_test(s0.get('cond')):
                                th = s0.get('then')
                                body_sts = th.get('c', ()) if th is not None and th.get('k') == 'CompoundStmt' else [th]
                                if any(inserts(strip(b_)) for b_ in body_sts if b_ is not None):
                                    ins = True
                            if s0.get('k') == 'CXXMemberCallExpr' and (s0.get('fn') or '').split('::')[-1] in ('insert', 'push_back', 'emplace', 'emplace_back') and \
                                    any(y.get('di') == cdi for y in walk(s0['c'][0])) and any(y.get('di') == root.get('di') for a_ in call_args(s0) for y in walk(a_)):
                                ins = True
                        ctx.ob('R14.3', 'closure:%s:%s@%s' % (f['name'], e['tag'], an), ins,
                               ('<%s %s> references `%s`, which is added to `%s` (emitted as <%s id=...>) in the same block' % (e['tag'], an, root.get('n'), cname, ctag)) if ins else
                               ('<%s %s> writes the id of `%s` (%s) but does not add it unconditionally to `%s`, the collection the <%s id=...> elements are emitted from '
                                '(line %s): the reference can dangle in the dump and cppcheckdata.py fails to resolve it' % (e['tag'], an, root.get('n'), t, cname, ctag, cline)),
                               '%s:%s' % (f['file'], p[3].get('l')))
    ctx.floor('R14.3 deferred element collections', ndeferred, 1)

    # ---- R14.2 ------------------------------------------------------------------------------------------------
    src = ctx.read(PY)
    tree = ast.parse(src)
    classes = {n.name: n for n in tree.body if isinstance(n, ast.ClassDef)}
    reads = {}
    idfields = {}
    for cname, c in classes.items():
        init = [m for m in c.body if isinstance(m, ast.FunctionDef) and m.name == '__init__']
        if not init:
            continue
        args = [a.arg for a in init[0].args.args]
        if len(args) < 2:
            continue
        el = args[1]
        rs = {}
        ids = {}
        for n in ast.walk(init[0]):
            if isinstance(n, ast.Call) and isinstance(n.func, ast.Attribute) and n.func.attr == 'get' and \
                    isinstance(n.func.value, ast.Name) and n.func.value.id == el and n.args and isinstance(n.args[0], ast.Constant):
                rs[n.args[0].value] = n.lineno
        for n in ast.walk(init[0]):
            if isinstance(n, ast.Assign) and len(n.targets) == 1 and isinstance(n.targets[0], ast.Attribute) and \
                    isinstance(n.targets[0].value, ast.Name) and n.targets[0].value.id == 'self' and n.targets[0].attr.endswith('Id') and \
                    isinstance(n.value, ast.Call) and isinstance(n.value.func, ast.Attribute) and n.value.func.attr == 'get' and n.value.args and \
                    isinstance(n.value.args[0], ast.Constant):
                ids[n.targets[0].attr] = n.value.args[0].value
        if rs:
            reads[cname] = rs
            idfields[cname] = ids
    # tag -> class from the parser loop
    tag2cls = {}
    for n in ast.walk(tree):
        if isinstance(n, ast.If):
            tags = [c.comparators[0].value for c in ast.walk(n.test) if isinstance(c, ast.Compare) and isinstance(c.left, ast.Attribute) and
                    c.left.attr == 'tag' and c.comparators and isinstance(c.comparators[0], ast.Constant)]
            if len(tags) != 1:
                continue
            for st in n.body:
                for x in ast.walk(st):
                    if isinstance(x, ast.Call) and isinstance(x.func, ast.Name) and x.func.id in reads and x.args and \
                            isinstance(x.args[0], ast.Name) and x.args[0].id in ('node', 'platformnode', 'rawtokens_node'):
                        tag2cls.setdefault(tags[0], x.func.id)
    ctx.floor('R14.2 dump elements mapped to reader classes', len(tag2cls), 12)
    # ValueType attributes are read from the token element
    extra_reads = {'token': ['ValueType'], 'var': []}
    npairs = 0
    cls_written = collections.defaultdict(set)
    for tag, cname in tag2cls.items():
        cls_written[cname] |= set(written.get(tag, {}))
    LEGACY_READS = {('Token', 'isExpandedMacro'): 'legacy attribute of older dumps; macroName (written) supersedes it in the same condition'}
    for tag, cname in sorted(tag2cls.items()):
        w = written.get(tag)
        if w is None:
            ctx.ob('R14.2', 'element:%s' % tag, False,
                   'cppcheckdata.py maps element <%s> to class %s, but no C++ dump writer emits an element with that name' % (tag, cname), PY)
            continue
        ctx.ob('R14.2', 'element:%s' % tag, True, '<%s> is written by the C++ dump writers and parsed as %s' % (tag, cname), PY)
        rset = dict(reads[cname])
        for ex in extra_reads.get(tag, ()):
            rset.update(reads.get(ex, {}))
        for a, line in sorted(rset.items()):
            npairs += 1
            ok = a in w or a in cls_written[cname] or any(a in cls_written.get(ex_, ()) for ex_ in extra_reads.get(tag, ()))
            if not ok and (cname, a) in LEGACY_READS:
                ctx.note('legacy read %s.%s: %s' % (cname, a, LEGACY_READS[(cname, a)]))
                continue
            ctx.ob('R14.2', 'read:%s@%s' % (tag, a), ok,
                   ('<%s %s> read by %s is written' % (tag, a, cname)) if ok else
                   ('%s reads attribute %r of <%s> (cppcheckdata.py:%d) but the C++ writers never emit it under that element '
                    '(written: %s): the addon library always sees None' % (cname, a, tag, line, sorted(x for x in w if x != '#')[:30])),
                   '%s:%d' % (PY, line))
        # id references written must be read
        for a, kinds in sorted(w.items()):
            if a == '#':
                continue
            if any(kd.startswith('call:id_string') for kd in kinds):
                ok = a in rset
                ctx.ob('R14.2', 'ref:%s@%s' % (tag, a), ok,
                       ('reference attribute <%s %s> is read by %s' % (tag, a, cname)) if ok else
                       ('the dump writes the reference attribute %r on <%s> (id_string) but %s never reads it: that edge of the graph is not '
                        'reconstructed by the addon library' % (a, tag, cname)), PY)
        # *Id fields are resolved in setId
        c = classes[cname]
        setid = [m for m in c.body if isinstance(m, ast.FunctionDef) and m.name == 'setId']
        for fld, attr in sorted(idfields.get(cname, {}).items()):
            if fld == 'Id':
                continue
            if not setid:
                continue
            used = any(isinstance(x, ast.Attribute) and x.attr == fld for x in ast.walk(setid[0]))
            ctx.ob('R14.2', 'resolve:%s.%s' % (cname, fld), used,
                   ('%s.%s (attribute %r) is resolved through the IdMap in setId()' % (cname, fld, attr)) if used else
                   ('%s stores attribute %r in self.%s but setId() never resolves it' % (cname, attr, fld)), '%s:%d' % (PY, setid[0].lineno))
    ctx.floor('R14.2 (element, attribute) reads compared', npairs, 120)


def r14_4(ctx, F, writer_keys):
    """R14.4  balanced container elements: where a function writes the start tag of a container element (<dump ...>) and its end tag (</dump>) in separate
    statements, both are statements of the same block and everything between them only writes the dump (stream operations, std:: calls, the dump writers, toxml).
    A call of code that can throw (explicit throw reachable, see C13) or a jump out of the block between the two tags leaves the element open on that path and the file is
    no longer well-formed."""
    ctx.rule('R14.4', 'start and end tag of a container element are written in one block with only dump writers in between')
    from .common.throws import Throws
    TH = Throws(F)
    n = 0
    for f in F.all_fns():
        if f['file'] != 'lib/cppcheck.cpp':
            continue
        b = F.body(f)
        if b is None:
            continue
        for blk, parents in walk_parents(b['body']):
            if blk.get('k') != 'CompoundStmt':
                continue
            kids = blk.get('c', [])

            def lits(st):
                return [y.get('v') or '' for y in walk(st) if y.get('k') == 'StringLiteral']
            opens = [i for i, st in enumerate(kids) if st.get('k') not in ('CompoundStmt', 'IfStmt', 'ForStmt', 'WhileStmt', 'CXXForRangeStmt', 'CXXTryStmt') and
                     any(re.match(r'^\s*<dump[ >]', v) for v in lits(st))]
            for oi in opens:
                n += 1
                same_stmt_close = any('</dump>' in v for v in lits(kids[oi]))
                ci = next((j for j in range(oi, len(kids)) if any('</dump>' in v for v in lits(kids[j])) and
                           kids[j].get('k') not in ('IfStmt', 'ForStmt', 'WhileStmt', 'CXXForRangeStmt', 'CXXTryStmt')), None)
                where = '%s:%s' % (f['file'], kids[oi]['l'])
                if ci is None:
                    ctx.ob('R14.4', 'balanced:%s#%d' % (f['name'], n), False,
                           '%s writes <dump ...> at line %s but the matching </dump> is not a statement of the same block: a path that leaves the block in between '
                           '(exception, continue, return) produces a dump file that is not well-formed' % (f['name'], kids[oi]['l']), where)
                    continue
                bad = None
                for st in kids[oi + 1:ci]:
                    for y in walk(st):
                        if y.get('k') in ('ReturnStmt', 'ContinueStmt', 'BreakStmt', 'CXXThrowExpr'):
                            bad = ('%s at line %s' % (y['k'], y['l']))
                        if y.get('k') in ('CallExpr', 'CXXMemberCallExpr') and y.get('fid'):
                            fn = y.get('fn') or ''
                            if fn.startswith('std::') or fn in ('ErrorLogger::toxml',) or fn.startswith(('Standards::', 'Settings::')):
                                continue
                            targets = F.resolve(f, y['fid'], y.get('virt', False))
                            if any(F.key(g) in writer_keys for g in targets):
                                continue
                            if targets and all(not TH.escape.get(F.key(g)) for g in targets):
                                continue      # cannot throw (no explicit throw reachable): accessors, formatting helpers
                            bad = 'call of %s at line %s' % (fn, y['l'])
                    if bad:
                        break
                ctx.ob('R14.4', 'balanced:%s#%d' % (f['name'], n), bad is None,
                       ('%s writes <dump> and </dump> in one block with only dump writers in between' % f['name']) if bad is None else
                       ('%s has a %s between the <dump ...> start tag (line %s) and the </dump> end tag: when that code throws or leaves the block, the element stays open and '
                        'the --dump file is not well-formed XML' % (f['name'], bad, kids[oi]['l'])), where)
    ctx.floor('R14.4 container start tags written in lib/cppcheck.cpp', n, 2)
