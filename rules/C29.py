"""C29  Output is deterministic across runs (address-order and enumeration-order sources).

Decides: no iteration order that depends on object addresses reaches a finding or the dump file, the
directory enumeration is sorted before it leaves the file lister, and no clock / random / pid value
reaches an output.  Multiset equality of findings with several jobs is C15 and is not decided here.

R29.1  every loop over a container ordered or hashed by a *pointer* key with the default comparator / hash
       (std::set<T*>, std::map<T*,..>, std::unordered_set/map<T*,..>), range-for or begin()/end() form, in lib/ and
       cli/, is classified: the loop is order-sensitive when its body (including lambdas and the repo functions it
       calls) can report a finding, or - inside a dump writer - appends to the output.  Order-sensitive loops over
       address-ordered containers are reported.  Loops whose body only inserts into other containers, updates
       token data, counts or tests are order-insensitive.
R29.2  FileLister: the names produced by readdir() are sorted before they leave the recursive lister (every
       return of the public entry passes a sort of the collected list).
R29.3  no call to rand/srand/random_device/getpid/std::this_thread::get_id/tmpnam in code reachable from the per-file
       analysis or the dump writers.  Clock reads (user-requested time limits, progress lines, __TIME__) are counted only.
"""
import re

from .common.facts import walk, walk_parents, strip, call_args, AnalysisBroken
from .common import paths
from .C20 import may_report_set

PTR_CONT = re.compile(r'^(?:const )?std::(unordered_)?(set|map|multiset|multimap)<(.*)>\s*&?$')
DUMP_ROOTS = ['Tokenizer::dump', 'Tokenizer::dumpTypedefInfo', 'Preprocessor::dump', 'SymbolDatabase::printXml', 'Token::printValueFlow',
              'ValueType::dump', 'TemplateSimplifier::dump', 'CppCheck::getDumpFileContentsRawTokens', 'CppCheck::getLibraryDumpData']
NONDET_CALLS = {'rand', 'srand', 'std::rand', 'std::srand', 'getpid', 'std::this_thread::get_id', 'std::random_device::operator()', 'tmpnam', 'std::tmpnam',
                'random', 'drand48', 'lrand48'}
# clocks are read only for user-requested limits (--template-max-time, --performance-valueflow-max-time, --typedef-max-time), progress lines and the
# __DATE__/__TIME__ macros: counted in the evidence, not armed (a run that hits a time limit is nondeterministic by the user's choice)
CLOCK_CALLS = {'time', 'std::time', 'clock', 'std::clock', 'std::chrono::system_clock::now', 'std::chrono::steady_clock::now',
               'std::chrono::high_resolution_clock::now', 'gettimeofday', 'clock_gettime'}
# debug-only writers: their output is not a finding and not the dump file
UNDECIDED = {
    'LifetimeStore::forEach': 'iterates std::set<Token*> and calls valueFlowForwardLifetime per token; what it can report are --debug-warnings bailout lines, the '
                              'values set per token are independent of the visiting order as far as reading shows; no input found whose findings change',
}
DEBUG_ONLY = {'TemplateSimplifier::printOut': '--debug-template output on stdout, not part of findings or the dump file',
              'SymbolDatabase::printOut': '--debug output',
              'Token::printOut': '--debug output'}


def split_targs(s):
    out, depth, cur = [], 0, ''
    for ch in s:
        if ch == '<':
            depth += 1
        elif ch == '>':
            depth -= 1
        if ch == ',' and depth == 0:
            out.append(cur.strip())
            cur = ''
        else:
            cur += ch
    if cur.strip():
        out.append(cur.strip())
    return out




def comparator_uses_addresses(F, name):
    """True iff the call operator of comparator class `name` orders by comparing raw pointers somewhere (a < b on pointer operands)."""
    cache = F.__dict__.setdefault('_c29_cmp_cache', {})     # per Facts object (id(F) can be reused after a scratch copy is freed)
    if name in cache:
        return cache[name]
    res = False
    if name.startswith('std::less<') or name.startswith('std::greater<'):
        res = name.rstrip('>').rstrip().endswith('*')
    else:
        for f in F.find(name + '::operator()'):
            b = F.body(f)
            if b is None:
                continue
            for x in walk(b['body']):
                if x.get('k') == 'CXXOperatorCallExpr' and re.match(r'std::(less|greater|less_equal|greater_equal)<.*\*\s*>::operator\(\)', x.get('fn') or ''):
                    res = True
                if x.get('k') == 'BinaryOperator' and x.get('op') in ('<', '>', '<=', '>='):
                    ts = [((strip(c) or {}).get('t') or '') for c in x['c'][:2]]
                    inner = []
                    for c in x['c'][:2]:
                        c0 = c
                        while c0 is not None and c0.get('k') in ('ImplicitCastExpr', 'ParenExpr') and c0.get('c'):
                            c0 = c0['c'][0]
                        inner.append((c0 or {}).get('t') or '')
                    if all(t.rstrip().endswith('*') for t in inner):
                        res = True
    cache[name] = res
    return res


def address_ordered(t, F=None):
    """True iff t is a std set/map whose order or hash is that of a raw pointer key: default comparator / hasher, or a
    user comparator whose call operator compares the pointers themselves."""
    m = PTR_CONT.match((t or '').strip())
    if not m:
        return False
    unordered, kind, args = m.group(1), m.group(2), split_targs(m.group(3))
    if not args or not args[0].rstrip().endswith('*'):
        return False
    nkey = 1 if 'set' in kind else 2
    extra = args[nkey:]
    if not extra:
        return True
    if F is not None and not unordered and comparator_uses_addresses(F, extra[0]):
        return True
    return False


def container_type(expr, F=None):
    for y in walk(expr):
        t = y.get('t')
        if t and address_ordered(t, F):
            return t
    return None


DEPENDENT = re.compile(r'^(?:const )?std::(unordered_)?(set|map|multiset|multimap)<\s*([A-Za-z_]\w*)\s*[,>]')


def dependent_container(F, f, expr):
    """range over a parameter of a function template whose key type is a template parameter: resolved through the call sites.
    Returns the concrete address-ordered type some caller passes, else None."""
    for y in walk(expr):
        if y.get('k') == 'DeclRefExpr' and y.get('dk') == 'ParmVar':
            params = f.get('params') or []
            idx = next((i for i, p_ in enumerate(params) if p_['di'] == y.get('di')), None)
            if idx is None:
                continue
            m = DEPENDENT.match(params[idx]['t'].strip())
            if not m or m.group(3) in ('int', 'unsigned', 'long', 'short', 'char', 'bool', 'std', 'nonneg'):
                continue
            for g in F.all_fns():
                if not any(c['f'] == f['id'] for c in g['calls']):
                    continue
                b = F.body(g)
                if b is None:
                    continue
                for x in walk(b['body']):
                    if x.get('k') == 'CallExpr' and x.get('fid') == f['id']:
                        a = call_args(x)
                        if idx < len(a):
                            ct = container_type(a[idx], F)
                            if ct:
                                return '%s (passed by %s)' % (ct, g['name'])
    return None


def run(ctx):
    F = ctx.facts
    for rid, t in [('R29.1', 'no address-ordered iteration reaches a finding or the dump'),
                   ('R29.2', 'directory enumeration is sorted before it leaves the file lister'),
                   ('R29.3', 'no clock / random / pid value in the analysis or the dump writers')]:
        ctx.rule(rid, t)
    reporters = may_report_set(F)
    droots = []
    for n in DUMP_ROOTS:
        droots += F.find(n)
    if len(droots) < 7:
        raise AnalysisBroken('dump writer anchors: %d found' % len(droots))
    dump_fns = set(F.reachable(droots, stop=lambda f: not f['file'].startswith('lib/')))
    for r in droots:
        dump_fns.add(F.key(r))

    def appends_output(n):
        for y in walk(n):
            if y.get('k') == 'CXXOperatorCallExpr' and y.get('op') in ('<<', '+=') and len(y.get('c', ())) >= 3:
                lt = (strip(y['c'][1]) or {}).get('t') or ''
                if 'basic_string' in lt or 'std::string' in lt or 'ostream' in lt:
                    return y
        return None

    def reports(f, n):
        for y in walk(n):
            if y.get('k') in ('CallExpr', 'CXXMemberCallExpr', 'CXXConstructExpr') and y.get('fid'):
                for g in F.resolve(f, y['fid'], y.get('virt', False)):
                    if F.key(g) in reporters:
                        return y
        return None

    def captures_order(n):
        """the body appends to a sequence container or leaves the loop early (first element in address order wins)"""
        inner_loops = set()
        for y in walk(n):
            if y.get('k') in ('ForStmt', 'WhileStmt', 'DoStmt', 'CXXForRangeStmt', 'SwitchStmt'):
                for z in walk(y.get('body') or {}):
                    inner_loops.add(id(z))
        lambdas = set()
        for y in walk(n):
            if y.get('k') == 'LambdaExpr':
                for z in walk(y.get('body') or {}):
                    lambdas.add(id(z))
        for y in walk(n):
            if y.get('k') == 'CXXMemberCallExpr' and (y.get('fn') or '').split('::')[-1] in ('push_back', 'emplace_back', 'push_front', 'emplace_front'):
                ot = ''
                for z in walk(y['c'][0]):
                    if z.get('t') and ('vector<' in z['t'] or 'list<' in z['t'] or 'deque<' in z['t'] or z['t'] in ('Args',)):
                        ot = z['t']
                        break
                if ot or True:
                    return 'appends to a sequence container (%s at line %s)' % (y['fn'].split('::')[-1], y['l'])
            if y.get('k') == 'CallExpr' and y.get('fn') in ('std::back_inserter', 'std::front_inserter'):
                return 'appends to a sequence container (std::back_inserter at line %s)' % y['l']
            if y.get('k') == 'BreakStmt' and id(y) not in inner_loops and id(y) not in lambdas:
                return 'leaves the loop at the first element that satisfies a condition (break at line %s)' % y['l']
            if y.get('k') == 'ReturnStmt' and id(y) not in lambdas:
                return 'returns from inside the loop (line %s): the first element in address order decides' % y['l']
        return None

    nloops = 0
    for f in F.all_fns():
        if not f['file'].startswith(('lib/', 'cli/')):
            continue
        b = F.body(f)
        if b is None:
            continue
        for x in walk(b['body']):
            ct = None
            loop_body = None
            if x.get('k') == 'CXXForRangeStmt' and x.get('range') is not None:
                ct = container_type(x['range'], F) or dependent_container(F, f, x['range'])
                loop_body = x.get('body')
            elif x.get('k') == 'ForStmt' and x.get('init') is not None:
                for d in walk(x['init']):
                    if d.get('k') == 'VarDecl' and d.get('init') is not None:
                        for y in walk(d['init']):
                            if y.get('k') == 'CXXMemberCallExpr' and (y.get('fn') or '').split('::')[-1] in ('begin', 'cbegin'):
                                ct = container_type(y['c'][0], F) or ct
                loop_body = x.get('body')
            if not ct:
                continue
            nloops += 1
            key = 'loop:%s:%s' % (f['name'], ct.replace(' ', '')[:60])
            where = '%s:%s' % (f['file'], x['l'])
            if f['name'] in UNDECIDED:
                ctx.note('R29.1 undecided: %s (%s) - %s' % (f['name'], where, UNDECIDED[f['name']]))
                continue
            if f['name'] in DEBUG_ONLY:
                ctx.ob('R29.1', key, True, '%s iterates %s: %s' % (f['name'], ct, DEBUG_ONLY[f['name']]), where)
                continue
            rep = reports(f, loop_body)
            out = appends_output(loop_body) if F.key(f) in dump_fns else None
            seq = captures_order(loop_body)
            if rep is None and out is None and seq is not None:
                ctx.ob('R29.1', key, False,
                       '%s iterates %s in address order and the loop body %s: the iteration order is captured in a sequence (or decides which element wins), so '
                       'everything computed from it - inferred values, findings - depends on where the objects were allocated' % (f['name'], ct, seq), where)
                continue
            if rep is None and out is None:
                ctx.ob('R29.1', key, True, '%s iterates %s; the body neither reports nor writes output (order-insensitive)' % (f['name'], ct), where)
                continue
            what = ('reports a finding through %s (line %s)' % (rep.get('fn') or rep.get('cls'), rep['l'])) if rep is not None else \
                ('appends to the dump output at line %s' % out['l'])
            ctx.ob('R29.1', key, False,
                   '%s iterates %s in address order and the loop body %s: the order of the output depends on where the objects were allocated '
                   '(address-space layout, allocator state)' % (f['name'], ct, what), where)
    ctx.floor('R29.1 loops over address-ordered containers', nloops, 8)

    # ---- R29.2 --------------------------------------------------------------------------------------------------
    rd = [f for f in F.all_fns() if f['file'].endswith('filelister.cpp') and any(c['f'].split('(')[0] in ('readdir', 'readdir_r') for c in f['calls'])]
    if not rd:
        raise AnalysisBroken('no readdir() caller found in cli/filelister.cpp')
    pub = F.find('FileLister::recursiveAddFiles') + F.find('FileLister::addFiles')
    if not pub:
        raise AnalysisBroken('FileLister public entries not found')
    for p in pub:
        b = F.body(p)
        if b is None:
            continue
        reach = F.reachable([p])
        if not any(F.key(r) in reach for r in rd):
            continue

        def gen(n):
            if n.get('k') == 'CXXMemberCallExpr' and (n.get('fn') or '').endswith('::sort'):
                return ('sorted',)
            if n.get('k') == 'CallExpr' and n.get('fn') in ('std::sort', 'std::stable_sort'):
                return ('sorted',)
            return ()
        # direct callers of the readdir function inside this entry: the sort must follow the collection on every normal return
        r = paths.analyse(b['body'], gen=gen, observe=lambda n: n.get('k') == 'ReturnStmt')
        rets = [(n, st) for kind, n, st in r.exits if kind in ('return', 'end')]
        calls_lister = lambda n: any((y.get('fn') or '') in {q['name'] for q in rd} | {'addFiles2'} for y in walk(n))
        # returns reached after the collection call
        def gen2(n):
            g = list(gen(n))
            if n.get('k') in ('CallExpr', 'CXXMemberCallExpr') and n.get('fid') and any(F.key(g_) in F.reachable([q for q in rd]) or g_ in rd for g_ in F.resolve(p, n['fid'], False)):
                g.append('collected')
            return g
        r = paths.analyse(b['body'], gen=gen2)
        ex = [(kind, n, st) for kind, n, st in r.exits if kind in ('return', 'end') and 'collected' in st]
        if not ex:
            continue
        ok = all('sorted' in st for _, _, st in ex)
        ctx.ob('R29.2', 'sorted:%s' % p['name'], ok, ('%s sorts the collected names on every path that returns them' % p['name']) if ok else
               ('%s returns names collected by readdir() on a path without a sort: the order of analysis and of the findings follows the directory enumeration order' % p['name']),
               '%s:%d' % (p['file'], p['line']))

    # ---- R29.3 --------------------------------------------------------------------------------------------------
    roots = F.find('CppCheck::check') + droots
    T = F.reachable(roots)
    n = 0
    bad = []
    clocks = 0
    for k, (f, _, _) in T.items():
        clocks += sum(1 for c in f['calls'] if c['f'].split('(')[0] in CLOCK_CALLS)
        if f['name'].startswith(('Timer::', 'TimerResults::', 'OneShotTimer::')):
            continue
        for c in f['calls']:
            nm = c['f'].split('(')[0]
            if nm in NONDET_CALLS:
                bad.append((f, c, nm))
    n = len(T)
    ctx.floor('R29.3 functions scanned', n, 3000)
    allowed = {}
    for f, c, nm in bad:
        ctx.ob('R29.3', 'nondet:%s:%s' % (f['name'], nm), False,
               '%s calls %s (reachable from the analysis / dump writers via %s): a time, random or process value can reach the output'
               % (f['name'], nm, ' -> '.join(F.chain(T, F.key(f))[-3:])), '%s:%s' % (f['file'], c.get('l')))
    ctx.ob('R29.3', 'nondet-census', True, '%d functions reachable from CppCheck::check and the dump writers scanned for clock/random/pid sources; %d hits; %d clock reads (time limits, progress, __TIME__) counted, not armed'
           % (n, len(bad), clocks), 'lib/')
