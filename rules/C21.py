"""C21  A crashing worker process is contained (status decoding and bookkeeping).

Decides: in the parent's event loop every abnormal child status produces the internal-error
finding, a premature end of pipe produces a non-zero result and retires the pipe, and the loop can
terminate only when no pipe and no child remains.  That the other files' findings equal those of a
fault-free run is not decided (run-time).

R21.1  in the function that calls waitpid(): inside the `child > 0` branch there is a call of
       reportInternalChildErr on the path WIFEXITED && WEXITSTATUS != EXIT_SUCCESS and one on the path
       !WIFEXITED && WIFSIGNALED; the child is erased from the pid table in that branch; and
       reportInternalChildErr builds an error-severity finding that goes to the logger.
R21.2  ProcessExecutor::handleRead: the arm for `read() <= 0` on the type byte (other than EAGAIN)
       increments the result counter and returns false; the caller closes and erases the pipe when
       handleRead returns false.
R21.3  the event loop's only `break` is dominated by "no more files, no pipes, no children".
R21.4  (census, not armed) std::exit() calls in the parent that are reachable on a short read.
R21.5  every removal from the list of pending read pipes (directly or through a local lambda, checked at each call
       site) is dominated by "handleRead returned false": that is the only place where a dead worker is counted
       into the result, and where the worker's own result (CHILD_END) is added.
"""
import re
from .common.facts import walk, walk_parents, strip, strip_all, call_args, AnalysisBroken
from .common import paths
from .common.absint import pure_sig


def has_mac(n, name):
    return any(y.get('mac') == name for y in walk(n))


def run(ctx):
    F = ctx.facts
    for rid, t in [('R21.1', 'abnormal child status -> reportInternalChildErr; child removed from the table'),
                   ('R21.2', 'premature end of pipe is counted and the pipe is retired'),
                   ('R21.3', 'the event loop ends only when no file, pipe or child remains'),
                   ('R21.4', 'census of std::exit in the parent read path'),
                   ('R21.5', 'a pending pipe is retired only after handleRead returned false')]:
        ctx.rule(rid, t)
    loops = [f for f in F.all_fns() if f['file'].startswith('cli/') and any(c['f'].startswith('waitpid(') for c in f['calls'])]
    if len(loops) != 1:
        raise AnalysisBroken('expected exactly one caller of waitpid() in cli/, found %d' % len(loops))
    pe = loops[0]
    body = F.body(pe)['body']
    where = '%s:%d' % (pe['file'], pe['line'])

    # the variable that receives waitpid's result, and the status variable
    child = None
    for x in walk(body):
        if x.get('k') == 'VarDecl' and x.get('init') is not None and any(y.get('fn') == 'waitpid' for y in walk(x['init'])):
            child = x['di']
    if child is None:
        raise AnalysisBroken('no local initialised from waitpid()')
    exitvars = {x['di'] for x in walk(body) if x.get('k') == 'VarDecl' and x.get('init') is not None and has_mac(x['init'], 'WEXITSTATUS')}

    def cond(n, truth):
        n0 = strip(n)
        out = []
        if n0 is None:
            return out
        if n0.get('mac') == 'WIFEXITED' or (has_mac(n0, 'WIFEXITED') and not has_mac(n0, 'WIFSIGNALED')):
            out.append(('exited', truth))
        if n0.get('mac') == 'WIFSIGNALED' or (has_mac(n0, 'WIFSIGNALED') and not has_mac(n0, 'WIFEXITED')):
            out.append(('signaled', truth))
        if n0.get('k') == 'BinaryOperator' and n0.get('op') in ('!=', '==', '>', '<'):
            a, b = strip(n0['c'][0]), strip(n0['c'][1])
            for x, y in ((a, b), (b, a)):
                if x.get('k') == 'DeclRefExpr' and x.get('di') in exitvars or has_mac(x, 'WEXITSTATUS'):
                    if has_mac(y, 'EXIT_SUCCESS') or (y.get('k') == 'IntegerLiteral' and y.get('v') == '0'):
                        nz = (n0['op'] in ('!=', '>')) == truth
                        out.append(('exit-nonzero', nz))
                if x.get('k') == 'DeclRefExpr' and x.get('di') == child and y.get('k') == 'IntegerLiteral' and y.get('v') == '0' and n0['op'] == '>' and x is a:
                    out.append(('child-positive', truth))
            # iterator / container emptiness for R21.3
        if n0.get('k') == 'CXXMemberCallExpr' and (n0.get('fn') or '').endswith('::empty'):
            obj = strip(n0['c'][0]['c'][0]) if n0['c'][0].get('c') else None
            if obj is not None and obj.get('k') == 'DeclRefExpr':
                out.append(('empty:' + obj.get('n', '?'), truth))
        if n0.get('k') in ('CXXOperatorCallExpr', 'BinaryOperator') and n0.get('op') in ('==', '!='):
            ops = n0['c'][1:] if n0['k'] == 'CXXOperatorCallExpr' else n0['c']
            if len(ops) == 2:
                names = []
                for o in ops:
                    o0 = strip_all(o)
                    if o0.get('k') == 'DeclRefExpr':
                        names.append(o0.get('n'))
                    elif o0.get('k') == 'CXXMemberCallExpr' and (o0.get('fn') or '').endswith(('::end', '::cend')):
                        names.append('end')
                if 'end' in names and len(names) == 2:
                    it = [x for x in names if x != 'end']
                    if it:
                        out.append(('at-end:' + it[0], (n0['op'] == '==') == truth))
        return out

    def observe(n):
        if n.get('k') in ('CXXMemberCallExpr', 'CallExpr') and (n.get('fn') or '').endswith('reportInternalChildErr'):
            return True
        if n.get('k') == 'BreakStmt':
            return True
        if n.get('k') == 'CXXMemberCallExpr' and (n.get('fn') or '').endswith('::erase'):
            return True
        return False

    res = paths.analyse(body, cond=cond, observe=observe)
    reps = [(res.at_node[i], st) for i, st in res.at.items() if (res.at_node[i].get('fn') or '').endswith('reportInternalChildErr')]
    ctx.counts['R21.1 reportInternalChildErr call sites in the waitpid loop'] = len(reps)
    sig_ok = any(('signaled', True) in st and ('child-positive', True) in st for n, st in reps)
    exit_ok = any(('exited', True) in st and ('exit-nonzero', True) in st and ('child-positive', True) in st for n, st in reps)
    ctx.ob('R21.1', 'signaled-arm', sig_ok,
           'a worker killed by a signal (WIFSIGNALED) is reported through reportInternalChildErr' if sig_ok else
           'no reportInternalChildErr call is dominated by child > 0 && WIFSIGNALED(stat): a worker that dies from a signal is not reported', where)
    ctx.ob('R21.1', 'nonzero-exit-arm', exit_ok,
           'a worker that exits with a non-zero status is reported through reportInternalChildErr' if exit_ok else
           'no reportInternalChildErr call is dominated by child > 0 && WIFEXITED(stat) && WEXITSTATUS(stat) != EXIT_SUCCESS', where)
    erases = [(res.at_node[i], st) for i, st in res.at.items() if (res.at_node[i].get('fn') or '').endswith('::erase')]
    child_erase = [n for n, st in erases if ('child-positive', True) in st]
    ctx.ob('R21.1', 'child-erased', bool(child_erase), 'the finished child is erased from the pid table under child > 0' if child_erase else
           'the pid table entry of a finished child is never erased: the loop cannot terminate / a dead child stays listed', where)
    # reportInternalChildErr itself
    rc = F.one('ProcessExecutor::reportInternalChildErr')
    rb = F.body(rc)['body']
    sev_error = any(y.get('k') == 'DeclRefExpr' and y.get('n') == 'Severity::error' for y in walk(rb))
    forwards = any(y.get('k') == 'CXXMemberCallExpr' and y.get('fn') == 'ErrorLogger::reportErr' for y in walk(rb))
    names_file = any(y.get('k') == 'DeclRefExpr' and y.get('n') == 'childname' for y in walk(rb))
    ctx.ob('R21.1', 'internal-error-finding', sev_error and forwards and names_file,
           'reportInternalChildErr builds an error-severity finding located at the worker\'s file and forwards it to the logger'
           if sev_error and forwards and names_file else 'reportInternalChildErr does not produce an error finding naming the file (severity error: %s, forwarded: %s, file: %s)'
           % (sev_error, forwards, names_file), '%s:%d' % (rc['file'], rc['line']))

    # ---- R21.3 ------------------------------------------------------------------------------------------
    brks = [(res.at_node[i], st) for i, st in res.at.items() if res.at_node[i].get('k') == 'BreakStmt']
    # only breaks that leave the outer event loop: the ones not nested in an inner loop/switch -> take breaks whose state has at-end labels or are top-level
    outer = None
    for x in walk(body):
        if x.get('k') == 'ForStmt' and x.get('cond') is None:
            outer = x
            break
    if outer is None:
        raise AnalysisBroken('the for(;;) event loop was not found')
    inner_ids = set()
    for x in walk(outer['body']):
        if x.get('k') in ('ForStmt', 'WhileStmt', 'DoStmt', 'CXXForRangeStmt', 'SwitchStmt'):
            for y in walk(x):
                inner_ids.add(id(y))
    outer_brks = [(n, st) for n, st in brks if id(n) not in inner_ids and any(n is y for y in walk(outer['body']))]
    ctx.floor('R21.3 break statements leaving the event loop', len(outer_brks), 1)
    for i, (n, st) in enumerate(outer_brks):
        empties = {l[0] for l in st if isinstance(l, tuple) and l[0].startswith('empty:') and l[1] is True}
        ends = {l[0] for l in st if isinstance(l, tuple) and l[0].startswith('at-end:') and l[1] is True}
        ok = len(empties) >= 2 and len(ends) >= 2
        ctx.ob('R21.3', 'loop-exit#%d' % i, ok,
               ('the loop ends only when %s and %s' % (sorted(empties), sorted(ends))) if ok else
               ('the break at line %s is not dominated by "all files started, no pipe open, no child left" (found: %s %s): the run can end while a '
                'worker is still alive or its output unread' % (n['l'], sorted(empties), sorted(ends))), '%s:%s' % (pe['file'], n['l']))

    # ---- R21.2 ------------------------------------------------------------------------------------------
    hr = F.one('ProcessExecutor::handleRead')
    hb = F.body(hr)['body']
    res_param = [p for p in hr['params'] if p['t'].replace('const ', '').strip() == 'unsigned int &']
    if not res_param:
        raise AnalysisBroken('handleRead: result reference parameter not found')
    rdi = res_param[0]['di']
    first_read = None
    for x in walk(hb):
        if x.get('k') == 'BinaryOperator' and x.get('op') == '=' and any(y.get('fn') == 'read' for y in walk(x['c'][1])):
            first_read = x
            break
    if first_read is None:
        raise AnalysisBroken('handleRead: no read() call found')
    rv = strip(first_read['c'][0]).get('di')

    def cond2(n, truth):
        n0 = strip(n)
        if n0 is not None and n0.get('k') == 'BinaryOperator' and n0.get('op') in ('<=', '<', '==') and strip(n0['c'][0]).get('di') == rv and \
                strip(n0['c'][1]).get('k') == 'IntegerLiteral' and strip(n0['c'][1]).get('v') == '0':
            return (('eof', truth),)
        return ()

    def gen2(n):
        if n.get('k') == 'UnaryOperator' and n.get('op') in ('++',) and strip(n['c'][0]).get('di') == rdi:
            return ('counted',)
        if n.get('k') in ('CompoundAssignOperator', 'BinaryOperator') and n.get('op') == '+=' and strip(n['c'][0]).get('di') == rdi:
            return ('counted',)
        return ()

    res2 = paths.analyse(hb, cond=cond2, gen=gen2, observe=lambda n: n.get('k') == 'ReturnStmt')
    # returns reached with eof true on the FIRST read (before the second read call)
    second_read_line = min([x['l'] for x in walk(hb) if x.get('fn') == 'read' and x['l'] > first_read['l']] or [10 ** 9])
    eof_rets = [(n, st) for k_, n, st in res2.exits if k_ == 'return' and ('eof', True) in st and n['l'] < second_read_line]
    false_rets = [(n, st) for n, st in eof_rets if any(y.get('k') == 'CXXBoolLiteralExpr' and y.get('v') is False for y in walk(n))]
    ok = bool(false_rets) and all('counted' in st for n, st in false_rets)
    ctx.ob('R21.2', 'eof-counted', ok,
           'a premature end of pipe returns false after incrementing the result counter' if ok else
           'the `read() <= 0` arm of handleRead does not both count the failure and return false: a worker that dies before writing is not '
           'reflected in the exit status', '%s:%s' % (hr['file'], first_read['l']))
    # caller retires the pipe on false; statements are looked at together with the bodies of the local lambdas they call
    lambdas = {}
    for d in walk(body):
        if d.get('k') == 'VarDecl' and d.get('init') is not None:
            i0 = strip(d['init'])
            while i0 is not None and i0.get('k') in ('ExprWithCleanups', 'CXXConstructExpr', 'MaterializeTemporaryExpr', 'CXXBindTemporaryExpr') and i0.get('c'):
                i0 = strip(i0['c'][0])
            if i0 is not None and i0.get('k') == 'LambdaExpr':
                lambdas[d['di']] = i0

    def lambda_called(n):
        """DeclRef of a local lambda being called by call-operator expression n (else None)."""
        if n.get('k') == 'CXXOperatorCallExpr' and n.get('op') == '()' and len(n.get('c', ())) >= 2:
            o = strip(n['c'][1])
            if o is not None and o.get('k') == 'DeclRefExpr' and o.get('di') in lambdas:
                return o['di']
        return None

    def walk_inl(n, depth=0):
        for y in walk(n):
            yield y
            li = lambda_called(y)
            if li is not None and depth < 3:
                yield from walk_inl(lambdas[li], depth + 1)

    read_res = set()
    for d in walk(body):
        if d.get('k') == 'VarDecl' and d.get('init') is not None and any((y.get('fn') or '').endswith('handleRead') for y in walk(d['init'])):
            read_res.add(d['di'])
    if not read_res:
        raise AnalysisBroken('ProcessExecutor::check: the result of handleRead is not stored in a local')
    closes = False
    for x in walk(body):
        if x.get('k') == 'IfStmt' and x.get('cond') is not None:
            c0 = strip(x['cond'])
            if c0.get('k') == 'UnaryOperator' and c0.get('op') == '!' and x.get('then') is not None:
                v = strip(c0['c'][0])
                if v.get('k') == 'DeclRefExpr' and v.get('di') in read_res:
                    th = x['then']
                    has_close = any(y.get('fn') == 'close' for y in walk_inl(th))
                    has_erase = any((y.get('fn') or '').endswith('::erase') for y in walk_inl(th))
                    closes = has_close and has_erase
    ctx.ob('R21.2', 'pipe-retired', closes, 'when handleRead returns false the caller closes the descriptor and erases the pipe' if closes else
           'the caller does not close and erase the pipe when handleRead returns false', where)

    # ---- R21.5 a pipe is retired only through the accounting gate ----------------------------------------------------
    # rpipes = the list of pipes the event loop still waits for.  A crashed worker is reflected in the exit status only by
    # handleRead's "premature end of pipe" arm, so every removal from that list must be dominated by "handleRead returned false".
    pend = None
    for d in walk(body):
        if d.get('k') == 'VarDecl' and (d.get('t') or '').startswith('std::list<int') and any(
                y.get('k') == 'CXXMemberCallExpr' and (y.get('fn') or '').endswith('::push_back') and any(z.get('di') == d['di'] for z in walk(y['c'][0])) for y in walk(body)):
            pend = d['di']
    if pend is None:
        raise AnalysisBroken('ProcessExecutor::check: the list of pending read pipes was not found')

    def is_retire(y):
        return y.get('k') == 'CXXMemberCallExpr' and (y.get('fn') or '').endswith('::erase') and any(z.get('di') == pend for z in walk(y['c'][0]))
    retiring_lambdas = {li for li, lam in lambdas.items() if any(is_retire(y) for y in walk_inl(lam))}

    def in_lambda(n):
        return any(any(y is n for y in walk(lam)) for lam in lambdas.values())

    def cond5(n, truth):
        n0 = strip(n)
        if n0 is not None and n0.get('k') == 'DeclRefExpr' and n0.get('di') in read_res:
            return (('read-ok', truth),)
        return ()

    def obs5(n):
        return (is_retire(n) and not in_lambda(n)) or lambda_called(n) in retiring_lambdas
    res5 = paths.analyse(body, cond=cond5, observe=obs5)
    sites = sorted(((res5.at_node[i], st) for i, st in res5.at.items()), key=lambda t: t[0]['l'])
    ctx.floor('R21.5 sites retiring a pending pipe', len(sites), 1)
    for i, (n, st) in enumerate(sites):
        ok = ('read-ok', False) in st
        ctx.ob('R21.5', 'retire#%d' % i, ok,
               ('the pipe is retired at line %s only after handleRead returned false (end of worker / counted failure)' % n['l']) if ok else
               ('the pending pipe is retired at line %s on a path where handleRead has not returned false: neither the worker\'s CHILD_END result nor the '
                '"premature end of pipe" failure count reaches the exit status, and unread findings of that worker are dropped' % n['l']),
               '%s:%s' % (pe['file'], n['l']))

    r21_6(ctx)

    # ---- R21.4 census -----------------------------------------------------------------------------------------
    exits = [x for x in walk(hb) if x.get('k') == 'CallExpr' and x.get('fn') in ('exit', 'std::exit')]
    ctx.note('R21.4: %d std::exit() calls in ProcessExecutor::handleRead (parent side, lines %s): a worker killed between two write() calls makes '
             'the parent exit without reporting the other files; needs fault injection to demonstrate, listed not armed'
             % (len(exits), [x['l'] for x in exits]))
    ctx.counts['std::exit calls in handleRead'] = len(exits)


def r21_6(ctx):
    """R21.6  descriptor-keyed bookkeeping dies with the descriptor: the kernel reuses the number of a closed pipe for the next pipe(), so every local map of
    ProcessExecutor::check that is keyed by the read descriptor (entries stored under pipes[0] when a worker is forked) must drop the entry where the pipe is
    retired (the block that closes the descriptor and removes it from the pending list).  Otherwise a later lookup by a recycled number returns another
    worker's data - e.g. the internal error of a crashed worker names the wrong file."""
    F = ctx.facts
    ctx.rule('R21.6', 'maps keyed by a pipe descriptor drop the entry when the descriptor is closed')
    pe = F.one('ProcessExecutor::check')
    body = F.body(pe)['body']
    fdmaps = {}
    for d in walk(body):
        if d.get('k') == 'VarDecl' and re.match(r'^std::(unordered_)?map<int,', (d.get('t') or '')):
            fdmaps[d['di']] = d
    stored = set()
    for x in walk(body):
        if x.get('k') == 'CXXOperatorCallExpr' and x.get('op') == '[]' and len(x.get('c', ())) >= 3:
            base = strip(x['c'][1])
            if base is not None and base.get('di') in fdmaps and any(y.get('k') == 'ArraySubscriptExpr' or y.get('n') == 'pipes' for y in walk(x['c'][2])):
                stored.add(base['di'])
    ctx.floor('R21.6 descriptor-keyed maps filled at fork time', len(stored), 1)
    # retire blocks: compound statements (or lambda bodies) that contain close(fd) and an erase on the pending list
    retire_blocks = []
    for x in walk(body):
        if x.get('k') == 'CompoundStmt':
            direct = x.get('c', ())
            has_close = any(y.get('k') == 'CallExpr' and y.get('fn') == 'close' for st in direct for y in walk(st) if st.get('k') not in ('IfStmt', 'ForStmt', 'WhileStmt', 'CXXForRangeStmt'))
            has_erase = any(y.get('k') == 'CXXMemberCallExpr' and (y.get('fn') or '').startswith('std::list<int') and (y.get('fn') or '').endswith('::erase') for st in direct for y in walk(st))
            if has_close and has_erase:
                retire_blocks.append(x)
    ctx.floor('R21.6 blocks retiring a pipe', len(retire_blocks), 1)
    for di in sorted(stored):
        name = fdmaps[di].get('n')
        for i, blk in enumerate(retire_blocks):
            erased = any(y.get('k') == 'CXXMemberCallExpr' and (y.get('fn') or '').endswith('::erase') and any(z.get('di') == di for z in walk(y['c'][0])) for y in walk(blk))
            ctx.ob('R21.6', 'fd-map:%s#%d' % (name, i), erased,
                   ('the entry of `%s` is erased where the descriptor is closed' % name) if erased else
                   ('`%s` is keyed by the read descriptor but its entry survives the close() at line %s: the next pipe() reuses the number, so a lookup made later for the '
                    'old worker (e.g. the file name for "Child process crashed") returns the new worker\'s entry' % (name, blk['l'])), '%s:%s' % (pe['file'], blk['l']))
