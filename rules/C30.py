"""C30  Library configuration: loading never dereferences a missing node (partial).

Decides: every nullable C string obtained from the XML tree while loading a library file
(tinyxml2 XMLElement::Attribute / GetText, XMLNode::Value) is tested before it is converted to
std::string, passed to a str* function, dereferenced, or handed to a repo function that does so;
and the loader's conversion failures are contained (the may-throw part is decided under C13).
The <valid> range semantics (numeric interpretation of range expressions) are not decided.

R30.1  nullable-use: sources = calls of tinyxml2 Attribute()/GetText(); a use is a *sink* if the
       value (directly, or through the local const char* it was stored in) is converted to
       std::string, is an argument of strcmp/strncmp/strlen/strchr/atoi/strto*, is dereferenced or
       indexed, or is passed to a repo function whose parameter reaches such a sink unconditionally.
       A sink is safe when dominated by a null test of the same variable (if (!p) return/continue,
       if (p), p && ..., p ? .. : ..), or when the value goes through empty_if_null/default_if_null.
quick tier: lib/library.cpp; thorough tier: every unit of lib/ and cli/ that uses the accessors.
"""
import collections

from .common.facts import walk, walk_parents, strip, strip_all, call_args, children, AnalysisBroken
from .common import paths

SOURCES = ('tinyxml2::XMLElement::Attribute', 'tinyxml2::XMLElement::GetText', 'tinyxml2::XMLNode::Value', 'tinyxml2::XMLElement::Name')
# Name()/Value() of an element never return null for parsed documents: only Attribute/GetText are nullable
NULLABLE = ('tinyxml2::XMLElement::Attribute', 'tinyxml2::XMLElement::GetText')
STR_FUNCS = {'strcmp', 'std::strcmp', 'strncmp', 'std::strncmp', 'strlen', 'std::strlen', 'strchr', 'std::strchr', 'atoi', 'std::atoi',
             'strtol', 'std::strtol', 'strtoul', 'strtoll', 'strtoull', 'std::strtoul', 'std::strtoll', 'std::strtoull', 'strstr', 'std::strstr',
             'strcasecmp', 'atof', 'std::atof', 'strtod', 'std::strtod'}
NULL_OK = {'empty_if_null', 'default_if_null'}


def is_nullable_call(n):
    n = strip(n)
    return n is not None and n.get('k') == 'CXXMemberCallExpr' and (n.get('fn') or '') in NULLABLE


class FnAnalysis:
    def __init__(self, F, fn, summaries, predicates=None):
        self.predicates = predicates or {}
        self.F = F
        self.fn = fn
        self.summaries = summaries
        self.body = F.body(fn)['body']
        self.nullable_vars = {}     # di -> decl node
        for x in walk(self.body):
            if x.get('k') == 'VarDecl' and x.get('init') is not None and (x.get('t') or '').replace('const ', '').strip().startswith('char *'):
                if is_nullable_call(x['init']):
                    self.nullable_vars[x['di']] = x
        # variables assigned later from a nullable source
        for x in walk(self.body):
            if x.get('k') == 'BinaryOperator' and x.get('op') == '=':
                l = strip(x['c'][0])
                if l.get('k') == 'DeclRefExpr' and l.get('di') and is_nullable_call(x['c'][1]):
                    self.nullable_vars.setdefault(l['di'], l)

    def sink_kind(self, node, parents):
        """Is `node` (a nullable expression) used in a dereferencing position?  Returns description or None."""
        cur = node
        for p in reversed(parents):
            k = p.get('k')
            if k in ('ImplicitCastExpr',):
                if p.get('ck') == 'PointerToBoolean':
                    return None     # a null test
                cur = p
                continue
            if k in ('CXXConstructExpr', 'CXXTemporaryObjectExpr') and p.get('cls') == 'std::basic_string':
                return 'conversion to std::string'
            if k == 'CXXOperatorCallExpr':
                fn = p.get('fn') or ''
                if 'basic_string' in fn or p.get('op') in ('==', '!=', '+', '+=', '=', '<<') and any('std::basic_string' in (a.get('t') or '') or 'std::string' in (a.get('t') or '') for a in p.get('c', ())[1:]):
                    return 'std::string operator%s' % p.get('op')
                return None
            if k == 'CallExpr' or k == 'CXXMemberCallExpr':
                fn = p.get('fn') or ''
                if fn in NULL_OK:
                    return None
                if fn in STR_FUNCS:
                    return 'argument of %s' % fn
                args = call_args(p)
                for i, a in enumerate(args):
                    if a is cur or strip(a) is strip(cur):
                        for g in self.F.resolve(self.fn, p.get('fid') or '', False):
                            s = self.summaries.get(self.F.key(g))
                            if s and i in s:
                                return 'argument %d of %s, which %s' % (i + 1, g['name'], s[i])
                            if i < len(g['params']) and 'std::string' in g['params'][i]['t'] and g['file'].startswith(('lib/', 'cli/')):
                                return 'conversion to std::string (parameter of %s)' % g['name']
                return None
            if k == 'UnaryOperator' and p.get('op') == '*':
                return 'dereference'
            if k == 'ArraySubscriptExpr':
                return 'indexing'
            if k == 'BinaryOperator' and p.get('op') in ('+', '-'):
                cur = p
                continue     # pointer arithmetic: 2 + p ... then used
            if k in ('ConditionalOperator',):
                if p['c'][0] is cur:
                    return None
                cur = p
                continue
            return None
        return None

    def run(self):
        """Returns list of (node, description, var-or-None)."""
        nv = self.nullable_vars

        def cond(n, truth):
            n0 = strip(n)
            if n0 is None:
                return ()
            if n0.get('k') == 'DeclRefExpr' and n0.get('di') in nv:
                return (('nn', n0['di']),) if truth else ()
            if n0.get('k') in ('CallExpr', 'CXXMemberCallExpr') and n0.get('fid') in self.predicates and truth:
                args = call_args(n0)
                i = self.predicates[n0['fid']]
                if i < len(args):
                    a0 = strip(args[i])
                    if a0.get('k') == 'DeclRefExpr' and a0.get('di') in nv:
                        return (('nn', a0['di']),)
            if n0.get('k') == 'BinaryOperator' and n0.get('op') in ('!=', '=='):
                a, b = strip(n0['c'][0]), strip(n0['c'][1])
                for x, y in ((a, b), (b, a)):
                    if x.get('k') == 'DeclRefExpr' and x.get('di') in nv and y.get('k') in ('CXXNullPtrLiteralExpr', 'GNUNullExpr', 'IntegerLiteral'):
                        nonnull = (n0['op'] == '!=') == truth
                        return (('nn', x['di']),) if nonnull else ()
            return ()

        def gen(n):
            # a declaration "if (const char *p = ...)" is handled through condvar by paths; reassignments kill
            return ()

        def kill(n):
            if n.get('k') == 'BinaryOperator' and n.get('op') == '=':
                l = strip(n['c'][0])
                if l.get('k') == 'DeclRefExpr' and l.get('di') in nv:
                    return (('nn', l['di']),)
            return ()

        uses = []
        parent_of = {}
        for x, parents in walk_parents(self.body):
            parent_of[id(x)] = parents
        cand = []
        for x, parents in walk_parents(self.body):
            if x.get('k') == 'DeclRefExpr' and x.get('di') in nv:
                d = self.sink_kind(x, parents)
                if d:
                    cand.append((x, d, x['di']))
            elif x.get('k') == 'CXXMemberCallExpr' and (x.get('fn') or '') in NULLABLE:
                d = self.sink_kind(x, parents)
                if d:
                    cand.append((x, d, None))
        ids = {id(c[0]) for c in cand}
        # condvar idiom: if (const char *p = e->Attribute("x")) { ... } -> the then-branch has p non-null
        condvar_scopes = {}
        for x in walk(self.body):
            if x.get('k') == 'IfStmt' and x.get('condvar') is not None:
                for d in x['condvar'].get('decls', ()):
                    if d.get('di') in nv and x.get('then') is not None:
                        for y in walk(x['then']):
                            condvar_scopes.setdefault(id(y), set()).add(d['di'])
        try:
            res = paths.analyse(self.body, gen=gen, cond=cond, kill=kill, observe=lambda n: id(n) in ids)
        except AnalysisBroken:
            res = None
        out = []
        for node, d, di in cand:
            if di is None:
                out.append((node, d, None))
                continue
            st = res.at.get(id(node)) if res is not None else None
            safe = (st is not None and ('nn', di) in st) or di in condvar_scopes.get(id(node), ())
            if st is None and res is not None and id(node) not in res.at:
                # not observed (e.g. inside unreachable code / lambda): treat as unknown -> unsafe only if no test at all
                safe = di in condvar_scopes.get(id(node), ())
            if not safe:
                out.append((node, d, di))
        self.guarded = [(n_, d_, di_) for n_, d_, di_ in cand if not any(n_ is b_[0] for b_ in out)]
        return out, len(cand)


def null_rejecting_predicates(F, fns):
    """{fn id: param index} for bool functions that return false when their const char* parameter is null
    (`if (!p || ...) return false;` before any other use)."""
    out = {}
    for f in fns:
        if f['ret'] != 'bool':
            continue
        b = F.body(f)
        if b is None:
            continue
        stmts = b['body'].get('c', [])
        for i, p in enumerate(f['params']):
            if not p['t'].replace('const ', '').strip().startswith('char *'):
                continue
            for st in stmts[:2]:
                if st.get('k') != 'IfStmt' or st.get('cond') is None:
                    break
                # leaves of an || chain
                leaves = []
                work = [strip(st['cond'])]
                while work:
                    c = work.pop()
                    if c.get('k') == 'BinaryOperator' and c.get('op') == '||':
                        work += [strip(c['c'][1]), strip(c['c'][0])]
                    else:
                        leaves.append(c)
                nulltest = any(c.get('k') == 'UnaryOperator' and c.get('op') == '!' and strip(c['c'][0]).get('di') == p['di'] for c in leaves)
                th = st.get('then')
                while th is not None and th.get('k') == 'CompoundStmt' and th.get('c'):
                    th = th['c'][0]
                retfalse = th is not None and th.get('k') == 'ReturnStmt' and any(y.get('k') == 'CXXBoolLiteralExpr' and y.get('v') is False for y in walk(th))
                if nulltest and retfalse:
                    out[f['id']] = i
                break
    return out


def param_summaries(F, fns):
    """fn key -> {param index: description} for const char* parameters that are used as sinks without a null test."""
    out = {}
    for f in fns:
        b = F.body(f)
        if b is None:
            continue
        cps = [(i, p) for i, p in enumerate(f['params']) if p['t'].replace('const ', '').strip().startswith('char *')]
        if not cps:
            continue
        body = b['body']
        s = {}
        for i, p in cps:
            tested = False
            sink = None
            for x, parents in walk_parents(body):
                if x.get('k') == 'DeclRefExpr' and x.get('di') == p['di']:
                    for pp in reversed(parents):
                        if pp.get('k') == 'ImplicitCastExpr' and pp.get('ck') == 'PointerToBoolean':
                            tested = True
                        if pp.get('k') == 'BinaryOperator' and pp.get('op') in ('==', '!=') and any(strip(c).get('k') in ('CXXNullPtrLiteralExpr', 'GNUNullExpr') for c in pp['c']):
                            tested = True
                        if pp.get('k') not in ('ImplicitCastExpr',):
                            break
                    par = parents[-1] if parents else None
                    k = None
                    for pp in reversed(parents):
                        if pp.get('k') == 'ImplicitCastExpr' and pp.get('ck') != 'PointerToBoolean':
                            continue
                        k = pp
                        break
                    if k is not None:
                        if k.get('k') in ('CXXConstructExpr',) and k.get('cls') == 'std::basic_string':
                            sink = sink or 'converts it to std::string'
                        elif k.get('k') == 'CallExpr' and (k.get('fn') or '') in STR_FUNCS:
                            sink = sink or 'passes it to %s' % k['fn']
                        elif k.get('k') == 'UnaryOperator' and k.get('op') == '*':
                            sink = sink or 'dereferences it'
                        elif k.get('k') == 'ArraySubscriptExpr':
                            sink = sink or 'indexes it'
                        elif k.get('k') == 'BinaryOperator' and k.get('op') == '+':
                            sink = sink or 'does pointer arithmetic on it'
            if sink and not tested:
                s[i] = sink + ' without a null test'
        if s:
            out[F.key(f)] = s
    return out


def run(ctx, files=('lib/library.cpp',)):
    F = ctx.facts
    r30_2(ctx)
    ctx.rule('R30.1', 'a nullable string from tinyxml2 (Attribute/GetText) is null-tested before it is converted, compared, '
                      'dereferenced or passed to a function that does so')
    repo_fns = [f for f in F.all_fns() if f['file'].startswith(('lib/', 'cli/'))]
    summ = param_summaries(F, repo_fns)
    preds = null_rejecting_predicates(F, repo_fns)
    ctx.counts['null-rejecting predicates'] = len(preds)
    ctx.counts['functions with const char* parameters used unchecked'] = len(summ)
    targets = [f for f in repo_fns if f['file'] in files and any(c['f'].split('(')[0] in NULLABLE for c in f['calls'])]
    if not targets:
        raise AnalysisBroken('no function in %s calls tinyxml2 Attribute()/GetText()' % (files,))
    nsrc = 0
    nuse = 0
    for f in sorted(targets, key=lambda f: (f['file'], f['line'])):
        an = FnAnalysis(F, f, summ, preds)
        bad, total = an.run()
        nuse += total
        nsrc += sum(1 for c in f['calls'] if c['f'].split('(')[0] in NULLABLE)
        seen = collections.Counter()
        badids = set()
        for node, d, di in bad:
            what = None
            if di is None:
                args = call_args(node)
                lit = [y.get('v') for a in args for y in walk(a) if y.get('k') == 'StringLiteral']
                src = '%s(%s)' % (node['fn'].split('::')[-1], ','.join(repr(v) for v in lit))
                recv = strip(node['c'][0]['c'][0]) if node['c'][0].get('c') else None
                rn = recv.get('n') if recv is not None and recv.get('k') == 'DeclRefExpr' else '?'
                name = '%s->%s' % (rn, src)
            else:
                decl = an.nullable_vars[di]
                name = decl.get('n') or '?'
            base = 'null:%s:%s' % (f['name'], name)
            seen[base] += 1
            key = base if seen[base] == 1 else '%s#%d' % (base, seen[base])
            ctx.ob('R30.1', key, False,
                   '%s in %s may be null (missing attribute / empty element) and is used for %s without a preceding null test: '
                   'a configuration file that omits it crashes cppcheck' % (name, f['name'], d), '%s:%s' % (f['file'], node['l']))
        gseen = collections.Counter()
        for node, d, di in getattr(an, 'guarded', []):
            nm = (an.nullable_vars[di].get('n') or '?') if di is not None else 'call'
            gseen[nm] += 1
            if gseen[nm] == 1:
                ctx.ob('R30.1', 'guarded:%s:%s' % (f['name'], nm), True,
                       '%s in %s is null-tested before its use (%s)' % (nm, f['name'], d), '%s:%s' % (f['file'], node['l']))
        ctx.ob('R30.1', 'fn:%s' % f['name'] + ('#%d' % len(f['params'])), not bad,
               '%d sink uses of nullable XML strings in %s, %d unguarded' % (total, f['name'], len(bad)), '%s:%d' % (f['file'], f['line']))
    ctx.floor('calls of tinyxml2 Attribute()/GetText() analysed', nsrc, 60 if 'lib/library.cpp' in files else 1)
    ctx.counts['sink uses of nullable strings'] = nuse


def thorough(ctx):
    F = ctx.facts
    files = sorted({f['file'] for f in F.all_fns() if f['file'].startswith(('lib/', 'cli/')) and f['file'] != 'lib/library.cpp' and
                    any(c['f'].split('(')[0] in NULLABLE for c in f['calls'])})
    ctx.note('thorough: widened to %s' % files)
    sub_before = len(ctx.obls)
    run(ctx, tuple(files))
    # findings outside library.cpp are reported as notes, not as violations of C30 (they belong to other readers)
    for o in ctx.obls[sub_before:]:
        if not o['ok']:
            ctx.note('other reader: %s %s' % (o['where'], o['what'][:160]))
            o['ok'] = True
            o['what'] = '[outside C30 scope, listed in notes] ' + o['what']


def r30_2(ctx):
    """R30.2  one lookup for per-argument configuration: <arg nr="any"> and <arg nr="variadic"> are stored under key -1 and Library::getarg falls back to that
    entry when an argument number has no entry of its own.  A keyed lookup in Library::Function::argumentChecks by argument number anywhere else bypasses the
    fallback, so restrictions declared for "any"/"variadic" arguments (valid ranges, not-bool, strz, not-null ...) are silently not applied there.  Only
    Library::getarg and the loader index the map by argument number; other code iterates it or asks for the key -1 explicitly."""
    F = ctx.facts
    ctx.rule('R30.2', 'per-argument configuration is looked up by argument number only through Library::getarg')
    FIELD = 'Library::Function::argumentChecks'
    ALLOWED = ('Library::getarg', 'Library::loadFunction')
    NOT_ARMED = {'CheckLeakAutoVar::checkScope': 'looks up the <arg direction=..> of numbered arguments for the leak check; bypasses the any/variadic fallback too, but the direction '
                                                 'attribute is not one of the restrictions this property names'}
    KEYED = ('find', 'at', 'count', 'operator[]', 'lower_bound', 'equal_range')
    n = 0

    def minus_one(a):
        a = strip(a)
        while a is not None and a.get('k') == 'ImplicitCastExpr' and a.get('c'):
            a = a['c'][0]
        return a is not None and a.get('k') == 'UnaryOperator' and a.get('op') == '-' and (strip(a['c'][0]) or {}).get('v') == '1'
    for f in F.all_fns():
        if not f['file'].startswith('lib/') or not any(a['n'] == FIELD for a in f['acc']):
            continue
        b = F.body(f)
        if b is None:
            continue
        aliases = set()
        for x in walk(b['body']):
            if x.get('k') == 'VarDecl' and x.get('init') is not None and any(y.get('k') == 'MemberExpr' and y.get('n') == FIELD for y in walk(x['init'])) and \
                    not any(y.get('k') in ('CXXMemberCallExpr', 'CXXOperatorCallExpr') for y in walk(x['init'])):
                aliases.add(x['di'])
        for x in walk(b['body']):
            if x.get('k') in ('CXXMemberCallExpr', 'CXXOperatorCallExpr'):
                if x['k'] == 'CXXMemberCallExpr':
                    meth = (x.get('fn') or '').split('::')[-1]
                    obj = x['c'][0]
                    args = call_args(x)
                else:
                    meth = 'operator[]' if x.get('op') == '[]' else None
                    obj = x['c'][1] if len(x.get('c', ())) > 1 else None
                    args = x['c'][2:]
                if meth not in KEYED or obj is None:
                    continue
                on_map = any((y.get('k') == 'MemberExpr' and y.get('n') == FIELD) or (y.get('k') == 'DeclRefExpr' and y.get('di') in aliases) for y in walk(obj))
                if not on_map:
                    continue
                n += 1
                if f['name'] in NOT_ARMED:
                    ctx.note('R30.2 not armed: %s (%s:%s) - %s' % (f['name'], f['file'], x['l'], NOT_ARMED[f['name']]))
                    continue
                if f['name'] in ALLOWED:
                    ctx.ob('R30.2', 'argchecks-lookup:%s' % f['name'], True, '%s indexes argumentChecks (the fallback implementation / the loader)' % f['name'], '%s:%s' % (f['file'], x['l']))
                    continue
                ok = bool(args) and all(minus_one(a) for a in args[:1])
                ctx.ob('R30.2', 'argchecks-lookup:%s' % f['name'], ok, ('%s asks for the "any/variadic" entry (-1) explicitly' % f['name']) if ok else
                       ('%s looks an argument number up in Library::Function::argumentChecks with %s() at line %s instead of Library::getarg: arguments that are covered only by '
                        '<arg nr="any"> / <arg nr="variadic"> are treated as unconfigured there, so their declared restrictions are not applied' % (f['name'], meth, x['l'])),
                       '%s:%s' % (f['file'], x['l']))
    ctx.floor('R30.2 keyed lookups in argumentChecks', n, 3)
