"""C10  Literal and constant values match the compiler per platform (platform model clause).

Decides: the built-in platform table (sizes, char width, char signedness) equals the data model of the
compiler's corresponding target, every way of selecting a platform assigns every size member and
recomputes the derived bit widths, and the shipped platform files define every member the loader
reads.  sizeof, integer truncation and literal typing all read this table; the numerical evaluation of
literals and constant folding is not decided.

R10.1  for each `case` group of Platform::set(Type) the constant assigned to each sizeof_* member, char_bit and
       defaultSign equals what clang reports for the matching target triple (predefined macros of
       `clang -target T -E -dM`: a query of the compiler's target description, nothing is executed):
       unix32 = i386-linux-gnu, unix64 = x86_64-linux-gnu, win32A/W = i386-pc-windows-msvc, win64 = x86_64-pc-windows-msvc.
R10.2  every `return true` of Platform::set(Type) is reached only after all size members, char_bit, defaultSign and
       `type` were assigned and calculateBitMembers() was called; loadFromXmlDocument calls calculateBitMembers()
       before every return that can be true.
R10.4  Platform::getLimitsDefines: CHAR_MIN / CHAR_MAX agree with SCHAR_* / UCHAR_MAX according to the plain-char signedness.
R10.3  data/reader agreement: the element names the XML loader dispatches on are exactly the size members of
       Platform, and every shipped platforms/*.xml defines each of them once, plus char_bit and default-sign (the
       loader is data driven: a missing element silently keeps the previous value).
"""
import glob
import os
import re
import subprocess
import xml.etree.ElementTree as ET

from .common.facts import walk, strip, strip_all, call_args, AnalysisBroken
from .common import paths

TRIPLES = {'Unix32': 'i386-linux-gnu', 'Unix64': 'x86_64-linux-gnu', 'Win32A': 'i386-pc-windows-msvc', 'Win32W': 'i386-pc-windows-msvc',
           'Win64': 'x86_64-pc-windows-msvc'}
MACRO = {'sizeof_short': '__SIZEOF_SHORT__', 'sizeof_int': '__SIZEOF_INT__', 'sizeof_long': '__SIZEOF_LONG__', 'sizeof_long_long': '__SIZEOF_LONG_LONG__',
         'sizeof_float': '__SIZEOF_FLOAT__', 'sizeof_double': '__SIZEOF_DOUBLE__', 'sizeof_long_double': '__SIZEOF_LONG_DOUBLE__',
         'sizeof_wchar_t': '__SIZEOF_WCHAR_T__', 'sizeof_size_t': '__SIZEOF_SIZE_T__', 'sizeof_pointer': '__SIZEOF_POINTER__', 'char_bit': '__CHAR_BIT__'}
XMLNAME = {'short': 'sizeof_short', 'bool': 'sizeof_bool', 'int': 'sizeof_int', 'long': 'sizeof_long', 'long-long': 'sizeof_long_long', 'float': 'sizeof_float',
           'double': 'sizeof_double', 'long-double': 'sizeof_long_double', 'pointer': 'sizeof_pointer', 'size_t': 'sizeof_size_t', 'wchar_t': 'sizeof_wchar_t'}


def target_macros(triple):
    r = subprocess.run(['clang', '-target', triple, '-x', 'c++', '-E', '-dM', '-'], input='', stdout=subprocess.PIPE, stderr=subprocess.PIPE, text=True)
    if r.returncode != 0:
        raise AnalysisBroken('clang cannot describe target %s: %s' % (triple, r.stderr[-200:]))
    out = {}
    for line in r.stdout.splitlines():
        m = re.match(r'#define (\w+) (.*)$', line)
        if m:
            out[m.group(1)] = m.group(2)
    return out


def run(ctx):
    F = ctx.facts
    for rid, t in [('R10.1', 'the built-in platform table equals the compiler\'s target data model'),
                   ('R10.2', 'every successful platform selection assigns all members and recomputes the bit widths'),
                   ('R10.3', 'XML loader names = size members; shipped platform files define all of them')]:
        ctx.rule(rid, t)
    cands = [f for f in F.find('Platform::set') if len(f.get('params', [])) == 1 and 'Type' in f['params'][0]['t']]
    if len(cands) != 1:
        raise AnalysisBroken('Platform::set(Type): %d candidates' % len(cands))
    ps = cands[0]
    body = F.body(ps)['body']
    rec = F.recs['Platform']
    size_members = [f['n'] for f in rec['fields'] if f['n'].startswith('sizeof_')]
    ctx.floor('R10 size members of Platform', len(size_members), 10)
    sw = next((x for x in walk(body) if x.get('k') == 'SwitchStmt'), None)
    if sw is None:
        raise AnalysisBroken('Platform::set(Type): switch not found')
    # split the switch body into groups: consecutive case labels + statements up to the return
    groups = []
    cur_labels, cur_stmts = [], []

    def flush():
        nonlocal cur_labels, cur_stmts
        if cur_labels:
            groups.append((cur_labels, cur_stmts))
        cur_labels, cur_stmts = [], []

    def add(n):
        nonlocal cur_labels, cur_stmts
        if n.get('k') in ('CaseStmt', 'DefaultStmt'):
            if cur_stmts:
                flush()
            lab = None
            for y in walk(n.get('val') or {}):
                if y.get('dk') == 'EnumConstant':
                    lab = y['n'].split('::')[-1]
            cur_labels.append(lab or 'default')
            if n.get('sub') is not None:
                add(n['sub'])
        else:
            cur_stmts.append(n)
    for st in (sw.get('body') or {}).get('c', ()):
        add(st)
    flush()
    ctx.floor('R10 case groups of Platform::set', len(groups), 5)
    macros = {}
    ncmp = 0
    for labels, stmts in groups:
        assigned = {}
        calc = False
        ret_true = False
        for st in stmts:
            for x in walk(st):
                if x.get('k') == 'BinaryOperator' and x.get('op') == '=':
                    l = strip(x['c'][0])
                    if l.get('k') == 'MemberExpr' and (l.get('n') or '').startswith('Platform::'):
                        assigned[l['n'].split('::')[-1]] = strip_all(x['c'][1])
                if x.get('k') == 'CXXMemberCallExpr' and x.get('fn') == 'Platform::calculateBitMembers':
                    calc = True
                if x.get('k') == 'ReturnStmt' and any(y.get('k') == 'CXXBoolLiteralExpr' and y.get('v') is True for y in walk(x)):
                    ret_true = True
        if not ret_true:
            continue
        where = '%s:%s' % (ps['file'], stmts[0]['l'] if stmts else ps['line'])
        name = '/'.join(labels)
        need = set(size_members) | {'char_bit', 'defaultSign', 'type'}
        missing = sorted(need - set(assigned))
        ctx.ob('R10.2', 'assigns-all:%s' % name, not missing and calc,
               ('platform %s assigns all %d members and calls calculateBitMembers()' % (name, len(need))) if not missing and calc else
               ('platform %s returns true but %s' % (name, ('does not assign ' + ', '.join(missing)) if missing else 'does not call calculateBitMembers(): the *_bit members keep '
                'the previous platform\'s widths')), where)
        for lab in labels:
            if lab not in TRIPLES:
                continue
            tm = macros.setdefault(TRIPLES[lab], target_macros(TRIPLES[lab]))
            for m, mac in sorted(MACRO.items()):
                v = assigned.get(m)
                if v is None or v.get('k') != 'IntegerLiteral':
                    continue
                ncmp += 1
                ok = str(v.get('v')) == tm.get(mac)
                ctx.ob('R10.1', 'size:%s:%s' % (lab, m), ok, ('%s.%s = %s = %s of %s' % (lab, m, v.get('v'), mac, TRIPLES[lab])) if ok else
                       ('platform %s sets %s = %s but the compiler\'s target %s has %s = %s: sizeof, truncation and literal typing are computed for a different data model'
                        % (lab, m, v.get('v'), TRIPLES[lab], mac, tm.get(mac))), '%s:%s' % (ps['file'], v.get('l')))
            ds = assigned.get('defaultSign')
            if ds is not None and ds.get('k') == 'CharacterLiteral':
                ncmp += 1
                want = 'u' if '__CHAR_UNSIGNED__' in tm else 's'
                got = chr(ds['v']) if isinstance(ds.get('v'), int) else ds.get('v')
                ctx.ob('R10.1', 'size:%s:defaultSign' % lab, got == want, ('%s: plain char is %s as for %s' % (lab, 'unsigned' if want == 'u' else 'signed', TRIPLES[lab])) if got == want else
                       ('platform %s sets defaultSign=%r but plain char is %s on %s' % (lab, got, 'unsigned' if want == 'u' else 'signed', TRIPLES[lab])), '%s:%s' % (ps['file'], ds.get('l')))
            sb = assigned.get('sizeof_bool')
            if sb is not None and sb.get('k') == 'IntegerLiteral':
                ncmp += 1
                ctx.ob('R10.1', 'size:%s:sizeof_bool' % lab, str(sb.get('v')) == '1', '%s.sizeof_bool = %s (sizeof(bool) is 1 for all four targets)' % (lab, sb.get('v')), '%s:%s' % (ps['file'], sb.get('l')))
    ctx.floor('R10.1 table entries compared with the compiler', ncmp, 50)

    r10_4(ctx)

    # loader
    ld = F.one('Platform::loadFromXmlDocument')
    lb = F.body(ld)['body']

    def gen(n):
        if n.get('k') == 'CXXMemberCallExpr' and n.get('fn') == 'Platform::calculateBitMembers':
            return ('calc',)
        return ()
    r = paths.analyse(lb, gen=gen)
    rets = [(n, st) for kind, n, st in r.exits if kind == 'return' and not any(y.get('k') == 'CXXBoolLiteralExpr' and y.get('v') is False for y in walk(n))]
    ok = bool(rets) and all('calc' in st for n, st in rets)
    ctx.ob('R10.2', 'loader-recomputes', ok, 'loadFromXmlDocument calls calculateBitMembers() before every return that can be true' if ok else
           'loadFromXmlDocument can return success without calculateBitMembers(): the *_bit members are stale', '%s:%d' % (ld['file'], ld['line']))
    # R10.3 names
    names = {}
    for x in walk(lb):
        if x.get('k') == 'IfStmt' and x.get('cond') is not None:
            lit = [y.get('v') for y in walk(x['cond']) if y.get('k') == 'StringLiteral']
            if len(lit) == 1 and any(y.get('fn') in ('strcmp', 'std::strcmp') for y in walk(x['cond'])):
                th = x.get('then')
                if th is None or any(y.get('k') in ('ForStmt', 'WhileStmt', 'CXXForRangeStmt') for y in walk(th)):
                    continue    # a container element (<sizeof>) that is iterated, not a value
                for y in walk(th):
                    if y.get('k') == 'BinaryOperator' and y.get('op') == '=' and strip(y['c'][0]).get('k') == 'MemberExpr':
                        names.setdefault(lit[0], strip(y['c'][0])['n'].split('::')[-1])
                        break
    read_members = {v for v in names.values() if v.startswith('sizeof_')}
    for m in size_members:
        ok = m in read_members
        ctx.ob('R10.3', 'loader-reads:%s' % m, ok, ('the XML loader assigns Platform::%s (element <%s>)' % (m, next(k for k, v in names.items() if v == m))) if ok else
               ('Platform::%s is a size member but the XML loader has no element for it: a platform file can never set it' % m), '%s:%d' % (ld['file'], ld['line']))
    for k, v in names.items():
        if v.startswith('sizeof_') and XMLNAME.get(k) != v:
            ctx.ob('R10.3', 'loader-name:%s' % k, False, 'the XML loader stores element <%s> into Platform::%s' % (k, v), '%s:%d' % (ld['file'], ld['line']))
    files = sorted(glob.glob(os.path.join(ctx.root, 'platforms', '*.xml')))
    ctx.floor('R10.3 shipped platform files', len(files), 10)
    size_elems = {k for k, v in names.items() if v.startswith('sizeof_')}
    for p in files:
        rel = os.path.relpath(p, ctx.root)
        try:
            root = ET.parse(p).getroot()
        except ET.ParseError as e:
            ctx.ob('R10.3', 'file:%s' % rel, False, '%s is not well-formed: %s' % (rel, e), rel)
            continue
        sz = root.find('sizeof')
        have = [c.tag for c in (sz if sz is not None else [])]
        missing = sorted(size_elems - set(have)) + [t for t in ('char_bit', 'default-sign') if root.find(t) is None]
        dup = sorted({t for t in have if have.count(t) > 1})
        unknown = sorted(set(have) - size_elems)
        ok = not missing and not dup and not unknown
        ctx.ob('R10.3', 'file:%s' % rel, ok, ('%s defines every member once' % rel) if ok else
               ('%s: missing %s, duplicated %s, not read by the loader %s (a missing element silently keeps the value of the previously selected platform)'
                % (rel, missing, dup, unknown)), rel)


def r10_4(ctx):
    """R10.4  limits defines: Platform::getLimitsDefines builds NAME=VALUE pairs from the bit widths.  Sibling agreement required by the
    language: CHAR_MIN is 0 when plain char is unsigned and equals SCHAR_MIN otherwise; CHAR_MAX equals UCHAR_MAX when plain char is
    unsigned and SCHAR_MAX otherwise (compared as expressions over the same members)."""
    from .common.jsonguard import expr_sig
    F = ctx.facts
    ctx.rule('R10.4', 'CHAR_MIN / CHAR_MAX defines follow the platform\'s plain-char signedness')
    cands = [f for f in F.find('Platform::getLimitsDefines') if f.get('params') and f['params'][0]['t'] == 'bool']
    if len(cands) != 1:
        raise AnalysisBroken('Platform::getLimitsDefines(bool): %d candidates' % len(cands))
    g = cands[0]
    body = F.body(g)['body']
    cur = None
    vals = {}       # name -> {'always': sig} or {'u': sig, 's': sig}

    def rhs_of(st):
        s0 = strip(st)
        if s0 is not None and s0.get('k') == 'CXXOperatorCallExpr' and s0.get('op') == '+=':
            return s0['c'][2]
        return None

    def name_in(expr):
        for y in walk(expr):
            if y.get('k') == 'StringLiteral':
                m = re.search(r'([A-Z_]+)=$', y.get('v') or '')
                if m:
                    return m.group(1)
        return None

    def sig(expr):
        e = strip_all(expr)
        # std::to_string(X) -> X
        if e.get('k') == 'CallExpr' and e.get('fn') == 'std::to_string':
            e = strip_all(call_args(e)[0])
        return expr_sig(e)

    for st in body.get('c', ()):
        r = rhs_of(st)
        if r is not None:
            nm = name_in(r)
            if nm:
                cur = nm
                continue
            if cur and cur not in vals:
                vals[cur] = {'always': sig(r)}
            continue
        if st.get('k') == 'IfStmt' and cur and cur not in vals:
            c = strip(st.get('cond'))
            lit = next((y for y in walk(c) if y.get('k') == 'CharacterLiteral'), None) if c else None
            is_u = c is not None and c.get('k') == 'BinaryOperator' and c.get('op') == '==' and any(y.get('n') == 'Platform::defaultSign' for y in walk(c)) and \
                lit is not None and lit.get('v') in (117, 'u')
            if is_u and st.get('then') is not None and st.get('else') is not None:
                t, e = rhs_of(st['then']) if st['then'].get('k') != 'CompoundStmt' else rhs_of(st['then']['c'][0]), \
                    rhs_of(st['else']) if st['else'].get('k') != 'CompoundStmt' else rhs_of(st['else']['c'][0])
                if t is not None and e is not None:
                    vals[cur] = {'u': sig(t), 's': sig(e)}
    need = ('SCHAR_MIN', 'SCHAR_MAX', 'UCHAR_MAX', 'CHAR_MIN', 'CHAR_MAX')
    if any(n not in vals for n in need):
        raise AnalysisBroken('getLimitsDefines: could not extract %s' % [n for n in need if n not in vals])
    where = '%s:%d' % (g['file'], g['line'])
    ok = vals['CHAR_MIN'].get('u') == 'IntegerLiteral(0)[]' and vals['CHAR_MIN'].get('s') == vals['SCHAR_MIN']['always']
    ctx.ob('R10.4', 'limits:CHAR_MIN', bool(ok), 'CHAR_MIN is 0 for unsigned plain char and SCHAR_MIN otherwise' if ok else
           'CHAR_MIN is defined as %s when plain char is unsigned and as %s when it is signed; the language requires 0 and SCHAR_MIN (%s): the two branches are swapped, so '
           '`#if CHAR_MIN < 0` and comparisons with CHAR_MIN are evaluated for the wrong signedness' % (vals['CHAR_MIN'].get('u'), vals['CHAR_MIN'].get('s'), vals['SCHAR_MIN']['always']), where)
    ok = 'u' in vals['CHAR_MAX'] and vals['CHAR_MAX']['u'] == vals['UCHAR_MAX']['always'] and vals['CHAR_MAX']['s'] == vals['SCHAR_MAX']['always']
    ctx.ob('R10.4', 'limits:CHAR_MAX', ok, 'CHAR_MAX is UCHAR_MAX for unsigned plain char and SCHAR_MAX otherwise' if ok else
           'CHAR_MAX is defined as %s / %s (unsigned / signed plain char); the language requires UCHAR_MAX (%s) / SCHAR_MAX (%s)'
           % (vals['CHAR_MAX'].get('u'), vals['CHAR_MAX'].get('s'), vals['UCHAR_MAX']['always'], vals['SCHAR_MAX']['always']), where)
