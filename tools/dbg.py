"""Interactive helper: from tools.dbg import F, walk"""
import sys
sys.path.insert(0, '/verif')
from rules.common import extract, facts
from rules.common.facts import walk, walk_parents, strip
F = facts.Facts("/repo")
