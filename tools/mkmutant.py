#!/usr/bin/env python3
"""mkmutant.py <prop> <name> <expect-key-substring> <file> <<< JSON [[old,new],...]
Creates mutants/<prop>/<name>.patch: a one-instance-broken variant of /repo used by the thorough
tier to show that the rule fires (see framework.self_validate)."""
import difflib, json, os, sys
prop, name, expect, rel = sys.argv[1:5]
pairs = json.load(sys.stdin)
src = open(os.path.join('/repo', rel)).read()
new = src
for old, rep in pairs:
    if new.count(old) != 1:
        sys.exit('pattern occurs %d times: %r' % (new.count(old), old[:60]))
    new = new.replace(old, rep)
d = ''.join(difflib.unified_diff(src.splitlines(True), new.splitlines(True), 'a/' + rel, 'b/' + rel))
out = os.path.join(os.path.dirname(os.path.dirname(os.path.abspath(__file__))), 'mutants', prop)
os.makedirs(out, exist_ok=True)
with open(os.path.join(out, name + '.patch'), 'w') as f:
    f.write('# expect: %s\n' % expect)
    f.write(d)
print('wrote', os.path.join(out, name + '.patch'))
