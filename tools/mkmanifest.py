#!/usr/bin/env python3
"""Writes /verif/MANIFEST.json from the table below (one entry per claimed property) and
validates it against /root/.vp/MANIFEST.schema.json when jsonschema is available."""
import json
import os
import sys

VERIF = os.path.dirname(os.path.dirname(os.path.abspath(__file__)))

NOTE_COMMON = ('Trusted base: clang 14 front end on the original sources with the build\'s -std/-D/-I flags '
               '(not the match-compiled copies), tools/cppfacts, the rule module. ')

CLAIMS = {
    'C18': dict(
        technique='static analysis: narrowing-cast lint + field coverage + must-pass-through (dominance) on the structured CFG of the cache-key functions',
        text='Decides the cache-key clause of the property: in Preprocessor::calculateHash no token line/column passes an '
             'integral narrowing cast, both token sources (file and every loaded header) are iterated with str/line/col '
             'appended, the key is computed after preprocessor.inlineSuppressions on every path of CppCheck::checkInternal and '
             'contains the suppression dump, and AnalyzerInformation::skipAnalysis accepts only when the whole key compares equal. '
             'Not decided: the files.txt mapping under add/remove/rename histories and the whole-program summaries reuse.',
        design='3/C18', note='Partial: necessary conditions on the key; histories themselves are not enumerated.'),
    'C22': dict(
        technique='static analysis: writer/reader agreement (markup model of the string-building writers vs. tinyxml2 reader model), struct field coverage via access facts, sibling-driver agreement',
        text='Decides, for all 7 summary kinds (ctu calls, unsafe usage, buffer overrun, null pointer, uninit var, class definitions, '
             'unused functions) that element names written == element names dispatched, attribute names written == read per element, '
             'every data member of the summary structs is serialized and restored, container keys agree, and both whole-program '
             'drivers iterate the check registry. The models are derived from the AST on every run (writers: << / + chains with nested '
             'writers inlined; readers: name-compare scopes and attribute helpers). Not decided: value fidelity of each field.',
        design='3/C22', note='Structural agreement of both sides; numeric/escaping fidelity of values is not decided.'),
    'C19': dict(
        technique='static analysis: writer/reader agreement between the option parser and the cache key (field who-reads query over the resolved call closure)',
        text='Decides the structural clause "every option the property lists is an input of the cache key": for each listed '
             'option the parser branch is located by its literal, the Settings field it writes is derived from the AST (table '
             're-verified on every run, exit 2 if stale) and that field must be read in the call closure of '
             'CppCheck::calculateHash; each optional severity flag must be tested there. A missing input is reported with the '
             'option, field and closure. Not decided: that equal keys imply equal results for options outside the list.',
        design='3/C19', note='Partial by construction: necessary condition (key covers the options), not equality of runs.'),
}

CLAIMS['C28'] = dict(
    technique='static analysis: abstract interpretation of every reporting call (id string-set evaluation, wrapper fixpoint, caller-bound parameters) and set inclusion EMIT subset-of LIST over the call graph',
    text='Decides EMIT subset-of LIST: EMIT = ids of all reporting calls (ErrorMessage constructions, through wrappers found by fixpoint) '
         'reachable from the analysis entry points with a user-facing severity, plus InternalError ids; LIST = ids obtained by '
         'interpreting CppCheck::getErrorMessages context-sensitively. Ids are exact string sets from an abstract interpreter '
         '(literals, ?:, +=, switch, getMessageId, case splitting on repeated pure conditions). 33 genuinely unlisted ids of the pinned '
         'tree are recorded as known findings; any other unlisted id is a VIOLATION. Outside the claim: library <warn>, addon, clang-tidy, '
         'debug/internal severities, the checkers summary.',
    design='3/C28', note='LIST is over-approximated (a listing call that returns early at run time still counts), so misses are possible on that side; EMIT is exact for enumerable ids, non-enumerable ids are exit 2.')

CLAIMS['C27'] = dict(
    technique='static analysis: interprocedural guard dominance (path conditions over settings atoms, guarded severity/certainty values, parameter binding at call sites) decided by exhaustive propositional case split',
    text='Decides, for 626 (site, severity|certainty) instances, that every reporting call that can carry warning/style/performance/'
         'portability/information or certainty inconclusive is dominated by the corresponding enable test on every call chain from '
         'the analysis entry points, and that site reachability is monotone in the options. A violation carries the falsifying option '
         'set and call chain. 20 genuine ungated sites of the pinned tree (each replayed against the built binary) are known findings; '
         '30 sites whose gating is established through data flow (settings-filtered value getters, containers filled under the '
         'option, separate --enable flags) are listed as not decided by this rule, with the reason.',
    design='3/C27', note='Assumes Settings::isPremiumEnabled() is false. Does not decide monotonicity of value-flow itself under --inconclusive, nor the undecided sites listed in rules/C27.py.')

CLAIMS['C16'] = dict(
    technique='static analysis: lock-set / effect analysis over the call-graph closure of the worker entry (lock scopes, static-storage and mutable-member write census, const-path check)',
    text='Decides data-race freedom at field granularity for all code reachable from threadProc (3559 functions): fields protected '
         'by each class mutex (set re-derived per run) are accessed only in lock scopes or lock-held helpers and never returned by '
         'reference; every static-storage variable mutated in T is const/atomic/mutex/thread_local; mutable members of classes '
         'shared between workers are synchronisation objects; no const_cast to shared classes and no write through pointer members in '
         'const methods of shared classes; Check singletons\' entry points write no member; the raw logger is used only under the '
         'forwarder\'s mutex; no MT-unsafe libc call. Over-approximates schedules (all) and inputs (all code).',
    design='3/C16', note='Field-level, not alias-level: races through raw pointer aliasing into shared objects, libstdc++ internals and the mutex implementation are not decided. Virtual calls fan out to all overriders except classes constructed only in the process executor (verified per run).')

CLAIMS['C13'] = dict(
    technique='static analysis: may-throw effect analysis over the whole-program call graph with handler-type matching at every call site (explicit throws + std::sto* pseudo-throws)',
    text='Decides the exception-containment clause: no exception raised by cppcheck\'s own code (96 origin sites: throw expressions in lib/cli/externals '
         'headers and std::sto* calls) can propagate out of main(); the per-file entry handles the repo\'s exception vocabulary; throws in lib/ stay '
         'inside it. On the pinned tree the rule exposed six reachable aborts (bad -D macro, polyspace comment, --suppress-xml, library .cfg attributes, '
         'compile database / GUI project values, whole-program addon output), each replayed and repaired by a fix: commit. 21 origin contexts are '
         'listed as not decided (no failing input known) and 12 as value-guarded, each with its reason.',
    design='3/C13', note='Only the exception channel: memory safety, UB and termination are run-time properties. .at()/substr/new are deliberately not modelled. Contexts below CppCheck::getErrorMessages are treated as input independent.')
CLAIMS['C34'] = dict(
    technique='static analysis: picojson is<T>()/get<T>() dominance, exception containment per calling context, and structural relay checks (id composition, severity-filter dominance, receiver) on CppCheck::executeAddons',
    text='Decides that ill-typed addon output cannot escape as an uncaught exception on the per-file or whole-program path, that a relayed finding\'s '
         'id is <addon>-<errorId>, message/severity/location come from the addon\'s fields, a finding of a disabled severity is dropped unless it is an '
         'explicitly enabled premium id, the finding goes through the suppression-aware CppCheck::mErrorLogger, and summaries are accumulated and '
         'handed to the whole-program call. The whole-program crash of the pinned tree was replayed and repaired (fix: commit).',
    design='3/C34', note='Field-by-field fidelity for well-formed output and the behaviour of the addon process itself are not decided.')

CLAIMS['C30'] = dict(
    technique='static analysis: nullable-use analysis (tinyxml2 Attribute()/GetText() results vs. dereferencing sinks, null-test dominance on the structured CFG, one level of callee parameter summaries)',
    text='Decides the "loading never crashes" clause for library configuration files: every nullable string read from the XML tree in '
         'lib/library.cpp (118 sink uses) is null-tested (if/continue/return, condition variables, null-rejecting predicates, empty_if_null) before '
         'it is converted to std::string, compared with str*, dereferenced or passed to a function that does so. The pinned tree had 8 unguarded uses; '
         'four were replayed as segfault/abort with small user .cfg files and all were repaired (fix: commit). Conversion exceptions of the loader are '
         'decided under C13. Thorough tier applies the rule to every other XML reader and lists what it finds.',
    design='3/C30', note='The <valid> range semantics and the not-null/not-bool argument reporting are numeric behaviour and are not decided.')

CLAIMS['C36'] = dict(
    technique='static analysis: field-sensitive taint analysis over the Python ast of cppcheck-htmlreport (sources: SAX attributes; sanitizers: html_escape/int; sinks: write() and the formatter\'s yielded lines) plus a record-filter lint',
    text='Decides that every attribute of a parsed finding (msg, verbose, id, severity, cwe, info, classification, guideline, line) reaches an HTML sink '
         'only through html_escape() or a numeric conversion, and that no loop over the collected findings skips a record (continue/filter) before the '
         'index and per-file pages are written, including the unreadable-source paths. The unescaped message/id/severity/... flows of the pinned tree were '
         'replayed (raw <script> in the page) and repaired by a fix: commit; the file-name flow is a recorded known finding.',
    design='3/C36', note='Flow-insensitive (no path conditions); "exactly once" and the pygments rendering are not decided.')

CLAIMS['C14'] = dict(
    technique='static analysis: markup model of the C++ dump writers (escaping lint on every run-time operand in attribute values) and writer/reader agreement with the Python ast of addons/cppcheckdata.py',
    text='Decides (a) every run-time operand that the dump writers place in an attribute value (150+ operands in 10 writer functions) is numeric, an id, '
         'literal-valued, or passes ErrorLogger::toxml; (b) for each dump element that cppcheckdata.py maps to a class, the attributes it reads are written '
         'under that element, id-reference attributes written are read, and *Id fields are resolved in setId(). The unescaped library name of the pinned '
         'tree was replayed (ill-formed dump) and repaired; the unread valueType-containerId reference is a known finding; three raw token-spelling '
         'operands are listed as not decided.',
    design='3/C14', note='Bracket-link symmetry and AST forest shape are properties of run-time data and are not decided. Element text content (as opposed to attribute values) is not checked.')

CLAIMS['C20'] = dict(
    technique='static analysis: dominance (must-pass-through on the structured CFG) of the cache acceptance path and a who-may-write query for the closing tag',
    text='Decides the acceptance gate: AnalyzerInformation::analyzeFile skips analysis only under xmlError == XML_SUCCESS and an empty skipAnalysis() '
         'verdict; skipAnalysis accepts only after the root, root-name and hash-attribute tests (whole-key equality is C18) and after the loop that rejects '
         'cached internalError/invalidLicense results; the literal </analyzerinfo> is written only by close(); processFilesTxt uses a per-file cache only '
         'when it parsed completely. A torn file therefore cannot be accepted. The crash points themselves are not enumerated.',
    design='3/C20', note='Necessary conditions on the reader/writer code; concurrent runs sharing a build dir and the file system\'s write ordering are not decided.')
CLAIMS['C21'] = dict(
    technique='static analysis: path conditions on the waitpid status decoding (macro-aware AST), must-analysis of the pipe EOF arm and of the event-loop exit',
    text='Decides that in the process executor\'s event loop a reportInternalChildErr call exists on the path child>0 && WIFSIGNALED and on the path '
         'child>0 && WIFEXITED && WEXITSTATUS != EXIT_SUCCESS, the finding is an error located at the worker\'s file and reaches the logger, the child is '
         'erased from the pid table, a premature end of pipe increments the result and retires the pipe, and the only loop exit is dominated by "no file '
         'left, no pipe, no child". Six std::exit() calls on short reads in the parent are listed (R21.4, not armed).',
    design='3/C21', note='That the other files\' findings equal a fault-free run is a run-time property and is not decided.')

CLAIMS['C23'] = dict(
    technique='static analysis: who-may-use rule on the raw logger field plus must-path analysis (dominance by the suppression test) of every forward to the user-visible logger',
    text='Decides the "no finding bypasses the suppression gate" half: CppCheck::mErrorLoggerDirect is used only to construct wrappers; in '
         'CppCheckLogger::reportErr every forward of a non-internal message is dominated by the negative suppression test (or lies in the safety-mode arm '
         'for critical ids) and every path through the isSuppressed arm records the match; every direct reportErr on the raw logger in cli/ is dominated by '
         'hasToLog(msg), which consults the nomsg list.',
    design='3/C23', note='Which findings a given suppression matches (globs, line ranges, block nesting) is value semantics of isSuppressed()/PathMatch and is not decided.')
CLAIMS['C25'] = dict(
    technique='static analysis: must-path analysis (dominance / post-dominance) of the exit-code accounting around every forward, def-use flow of component results into '
              'the returned status, sibling agreement on consulting the exitcode suppressions',
    text='Decides that every non-internal, unsuppressed finding forwarded by CppCheckLogger::reportErr passes the accounting statement guarded by '
         '!nofail.isSuppressed && !nomsg.isSuppressed; that the results of all three executors, analyseWholeProgram and the unmatched-suppression report flow '
         'into returnValue, settings.exitCode is returned exactly under returnValue != 0 and EXIT_FAILURE for an unparsable command line; that each '
         'executor accumulates every per-file result (incl. the pipe protocol of the process executor); and that every fail-on-finding site consults '
         'Suppressions::nofail (one known finding: reportUnmatchedSuppressions).',
    design='3/C25', note='The "if and only if" on a concrete run (which findings a run produces) is not decided; only that no path around the accounting exists.')

CLAIMS['C15'] = dict(
    technique='static analysis: writer/reader agreement of the inter-process encodings (field coverage by who-reads/who-writes queries, slot-by-slot member matching through '
              'constructor initialisers and getters, constant agreement), enum exhaustiveness of the pipe protocol, dominance of worker-finding forwards by hasToLog',
    text='Decides that ErrorMessage::serialize/deserialize carry every data member a worker can set (members outside the encoding must be written only by the parent-side '
         'StdLogger), that slot k and stack-frame part k are restored into the member they were taken from, that the three element counts agree, that every '
         'PipeWriter::PipeSignal is written, accepted by handleRead\'s validation and handled, and that both executors forward a worker finding only under hasToLog(msg).',
    design='3/C15', note='Equality of the reports under every interleaving and message contents that stress the length-prefixed framing are not decided.')

CLAIMS['C24'] = dict(
    technique='static analysis: writer/reader slot agreement of the suppression-state encoding, coverage of the members read by the parent-side consumers '
              '(who-reads query over isSameParameters and the getUnmatched* functions), must-path analysis that every worker exit hands the state over',
    text='Decides that the k-th part written by PipeWriter::suppressionToString is restored by ProcessExecutor::handleRead into the same member and the part counts agree; '
         'that every Suppression member read by isSameParameters / getUnmatchedLocal/Global/InlineSuppressions is carried (explicit slot, toString()/parseLine(), signal kind) '
         'or is in the reasoned VALUE_SAFE table (thisAndNextLine, type); that the forked worker calls writeSuppr before writeEnd, writeSuppr sends every inline and every '
         'checked suppression, the reader adds-or-merges, updateSuppressionState merges both flags and the thread worker propagates state.',
    design='3/C24', note='Which suppressions should count as unmatched (the matching semantics) is not decided; field values containing the separator are data-dependent and not decided.')

CLAIMS['C17'] = dict(
    technique='static analysis: who-writes queries over the members of the reused analyzer objects plus a prologue / all-exits must-analysis for their resets, '
              'effect analysis of static-storage variables over the call graph rooted at CppCheck::check, base-object analysis of every write to an option object',
    text='Decides that every per-file data member of CppCheck::CppCheckLogger is reset in the straight-line prologue of CppCheck::checkInternal (or on every exit), that the '
         'mutable members of CppCheck are the two documented whole-program accumulators, that code reachable from CppCheck::check modifies no static-storage variable other '
         'than mutexes (one memo table is listed as undecided), and that every write to Settings/Platform/Standards/Library members in that code goes to a local copy.',
    design='3/C17', note='Independence of the findings themselves for every input, and the shared Suppressions state (C23/C24), are not decided.')

CLAIMS['C29'] = dict(
    technique='static analysis: type-directed census of loops over address-ordered containers (pointer-keyed std::set/map/unordered_* with the default comparator/hasher) '
              'with an effect classification of each loop body over the call graph (can report a finding / appends to the dump), must-pass-through of a sort between '
              'readdir() and the file lister\'s return, who-may-call rule for random/pid sources',
    text='Decides that no loop whose iteration order is the order of object addresses has a body that can report a finding or (inside a dump writer) append to the dump, that '
         'every return of FileLister::addFiles that carries names collected through readdir() passes a sort, and that no rand/random_device/getpid/thread-id/tmpnam call is '
         'reachable from the per-file analysis or the dump writers (clock reads for user-requested time limits are counted, not armed).',
    design='3/C29', note='Order dependence that flows through an intermediate container filled in address order, std::hash<std::string>-ordered containers and the multi-job '
                         'multiset clause (C15) are not decided.')

CLAIMS['C26'] = dict(
    technique='static analysis: sink discipline (XML markup only through tinyxml2::XMLPrinter calls, SARIF only through picojson values), operand classification of every printer '
              'call, writer/schema agreement between the attribute and element names the writer can push and the RELAX NG grammar (parsed as XML), set inclusion of documented '
              'template fields in the substituted ones',
    text='Decides that ErrorMessage::toXML/getXMLHeader return printer output with no markup built by string concatenation; that every string operand pushed into the XML is '
         'sanitised by fixInvalidChars, numeric, an enum name or a literal (file/file0/origfile are raw: known findings; id and symbol text: undecided, tabled); that every element, '
         'attribute and severity value the writer can emit is declared by cppcheck-errors.rng and every required attribute is written unconditionally; that SarifReport::serialize '
         'returns the serialisation of a picojson value and no run-time text is concatenated with JSON-structure literals; and that every {field} documented in the help text is '
         'replaced by ErrorMessage::toString.',
    design='3/C26', note='That each finding is rendered exactly once and that the three formats carry the same finding sets is not decided.')

CLAIMS['C10'] = dict(
    technique='static analysis: table extraction from the switch of Platform::set(Type) compared entry by entry with the compiler\'s target description (predefined macros of '
              '`clang -target T -E -dM`, nothing is executed), field-coverage and must-pass-through on every successful return, reader/data-file agreement for platforms/*.xml',
    text='Decides that for unix32/unix64/win32A/win32W/win64 every sizeof_* constant, char_bit and the default char signedness equal the data model of the corresponding clang '
         'target; that every `return true` of Platform::set(Type) follows the assignment of all size members, char_bit, defaultSign, type and a call of calculateBitMembers(); that '
         'the XML loader recomputes the bit widths and has an element for every size member; and that each shipped platforms/*.xml defines every member exactly once.',
    design='3/C10', note='Numerical results (MathLib literal parsing, character literals, constant folding, truncation arithmetic) are not decided - only the table they read.')

CLAIMS['C07'] = dict(
    technique='static analysis: extraction of the precedence/associativity table encoded by the compile* ladder of lib/tokenlist.cpp (call chain, operator spellings in the '
              'branch conditions, the function passed for the right operand) and comparison with the grammar\'s table',
    text='Decides that the chain compileComma -> ... -> compilePointerToElem has exactly the 14 binary levels of the C/C++ expression grammar in the same order, that each level '
         'tests exactly the operators of that level (comma; = ?: ; ||; &&; |; ^; &; == !=; < <= > >=; <=>; << >>; + -; * / %; .*), that assignment/conditional are right-associative '
         'and all others left-associative, and that compileExpression enters at the loosest level.',
    design='3/C07', note='Unary, postfix, cast and template-bracket disambiguation (compilePrecedence2/3), which depend on token context, and the AST validation are not decided.')

CLAIMS['C05'] = dict(
    technique='static analysis: def-use census of Token::linenr()/column() values over lib/ and classification of every comparison they feed; the functions allowed to branch '
              'on positions are an explicit table with one reason per entry',
    text='Decides the layout clause: every comparison whose operand is a token line or column number (directly or through a local) lies in a tabled function - the three checks the '
         'property excludes, code for which lines are input syntax (inline suppressions, directives, single-line asm) or output formatting, or a lexicographic position comparator. '
         'One site outside the tables is a known finding (multi-line lambda bailout in initializationListUsage); two were repaired.',
    design='3/C05', note='Only the whitespace / blank-line / comment family is covered, and only as a necessary condition; renaming and reordering rewrites are not decided.')

CLAIMS['C12'] = dict(
    technique='static analysis: must-analysis (every path to a return) of the simplecpp::DUI producers, who-may-construct rule for the option block of simplecpp::preprocess/load, '
              'guard-dominance of every insertion into simplecpp\'s macro table, exit census of the configuration loops of CppCheck::checkInternal, sibling agreement of the two '
              'configuration-enumerator call sites',
    text='Decides the plumbing of -D/-U and the exits of the configuration loop (necessary conditions): every option block handed to simplecpp comes from a producer that copies '
         'Settings::userDefines into DUI::defines and Settings::userUndefs into DUI::undefined on every path; every insertion into the macro table of simplecpp::preprocess is guarded by a '
         'lookup in DUI::undefined (for a predefined macro: of that name); the loops over the configurations of a file end early only under the terminate test or the '
         '!force && n > maxConfigs test; the configuration enumerator receives -D and -U for the main file and for every included file and passes the -U set to every condition it reads. '
         'The key of the duplicate-configuration purge (TokenList::calculateHash) reads text, binding, classification, flags and original name of every token. '
         'The #elif/#else arm of the enumerator keeps its condition stack balanced. Two defects were repaired (predefined macros ignored -U; #else popped the enclosing #ifdef).',
    design='3/C12 and 8.2', note='Which configurations Preprocessor::getConfigs enumerates for a given conditional structure, the configuration strings, and simplecpp\'s evaluation of '
                                 'conditions are value dependent and not decided.')

CLAIMS['C31'] = dict(
    technique='static analysis: guard-dominance (must-analysis with branch facts) of every append of the directory lister, call-graph agreement of the pattern-matcher users, '
              'branch census of the --file-filter application',
    text='Decides the gating clause and the one-matcher clause (necessary conditions): every path the directory lister (POSIX variant, the one compiled here) appends has been rejected by the '
         '-i matcher and, when found by traversal, accepted by Path::acceptFile; the -i filter, --file-filter, project exclusion and the file test of suppressions all end in the static '
         'PathMatch::match, and the file comparison in Suppression::isSuppressed is that call; with --file-filter the list copied into CmdLineParser::mFiles is the filter result. '
         'The sorted-order clause is decided by C29 R29.2.',
    design='3/C31', note='Glob and canonicalisation semantics of PathMatch::match / Path::simplifyPath on arbitrary strings (\'*\', \'**\', \'?\', relative/absolute patterns, trailing separators), '
                         'de-duplication, and the Windows variant of the lister (not compiled on this platform) are not decided.')

CLAIMS['C32'] = dict(
    technique='static analysis: must-pass-through of the argument parser before every project entry is appended, sibling agreement of the two entry forms, option table verified '
              'against the parser branches, must-analysis of the FileSettings -> Settings transfer before the per-file CppCheck is constructed',
    text='Decides that the options of a compilation-database entry are carried to the analysis (necessary conditions): every FileSettings appended by importCompileCommands has passed '
         'ImportProject::parseArgs, and the "arguments" form and the "command" form fill the same argument vector; for -I, -D, -U and -std the parser branch stores into a FileSettings member and '
         'CppCheck::check(const FileSettings&) transfers that member into Settings::includePaths / userDefines / userUndefs / standards before every per-file CppCheck is built; '
         'every entry\'s include paths are resolved against that entry\'s own directory; no accepted option spelling is a prefix of an absolute path (four known findings: /I /D /U /std:).',
    design='3/C32', note='Shell unquoting of the command string, option spelling variants, relative-path resolution and the "no others" clause are input/output behaviour of a hand-written '
                         'parser on arbitrary strings and are not decided.')

CLAIMS['C33'] = dict(
    technique='static analysis: partial evaluation of the interpreter\'s character trie (multiComparePercent) on each constant %cmd% string with the token kept symbolic, '
              'Python ast of tools/matchcompiler.py::_compileCmd and ::tokTypes, set inclusion of the eKeyword words in every keyword set of lib/keywords.cpp, partial evaluation of Token::update_property_info on each operator string, comparison of the Token predicates / operators / constants of the two sides, pointer-advance accounting',
    text='Decides the agreement of the %command% vocabulary of the two matchers (a necessary condition): for each of the 15 commands in the match compiler\'s table the interpreter, '
         'specialised to that command, reaches a match, guards it with the same Token predicates, comparison operators and constants as the expression the match compiler emits '
         '(one tabled implied conjunct for %varid%), and advances the pattern pointer by exactly the length of the command; the commands the property names are in the table.',
    design='3/C33', note='Alternatives (|), optional ([..]) and negated (!!) tokens, multi-token sequencing and the control flow the match compiler generates - i.e. equivalence of the two '
                         'matchers on arbitrary patterns and token sequences - are program equivalence and are not decided.')

# rules added while triaging seeded changes and replayed defects (see DESIGN.md 8.4/8.5); appended to the decided text of each claim
EXTRA = {
    'C33': 'R33.3: every literal word that tools/matchcompiler.py::tokTypes types eKeyword is a keyword (TokenList::isKeyword) under every C and C++ standard Keywords::getAll can return '
           '(keyword sets of lib/keywords.cpp after preprocessing, exclusion sets of isKeyword from the AST); one tabled word (inline) with a condition checked on every run. '
           'R33.4: for every punctuation string of tokTypes, every token type the else-if chain of Token::update_property_info assigns on a path feasible for that constant string '
           '(partial evaluation of the AST, mLink both ways for bracket characters) is listed in the table. R33.5: the same for the eBoolean words, with and without a variable id.',
    'C05': 'R05.2: token lists are rendered with line breaks / line numbers / file names only by the printers of the Token class. R05.3: a token line is compared with a '
           'non-token line (directive, suppression) only together with a same-file test.',
    'C10': 'R10.4: the CHAR_MIN / CHAR_MAX limit defines follow the plain-char signedness (one known finding).',
    'C13': 'R13.5: every signed 64-bit division / modulo with a non-literal divisor is guarded against zero and LLONG_MIN / -1. R13.6: every non-null write of '
           'Type::BaseInfo::type is dominated by a negative findDependency test (the recursive hierarchy walkers rely on an acyclic base graph).',
    'C14': 'R14.3: every local pointer whose id is written as a reference attribute is added unconditionally to the collection its defining elements are emitted from. '
           'R14.4: start and end tag of a container element are written in one block with only non-throwing dump writers in between.',
    'C15': 'R15.1 also requires lossless operands (three known findings: fixInvalidChars in serialize). R15.4: Executor::hasToLog passes every internal message. '
           'R15.5: suppression state reported by several workers is merged (add, else update). R15.6: the three duplicate filters (per-file logger, executor, final logger) key on '
           'ErrorMessage::toString with the same Settings members. R15.7: the frame reader takes the last (free-text) part as the remainder. R15.8: frame parts before the last are numbers '
           '(two known findings: file names with a tab).',
    'C16': 'The protected set of a mutex is the union of the majority set and the fields some method modifies under the lock (contradiction rule); pointers to protected '
           'elements must not outlive the lock scope. R16.5 also: functions that use Executor::mErrorLogger are called from worker-reachable code only by SyncLogForwarder.',
    'C17': 'R17.4: function-local statics reachable from CppCheck::check are not initialised from parameters, locals or this. R17.5: the TU-relative Suppression::fileIndex is read '
           'only by the per-unit comment processing.',
    'C18': 'R18.5: no commutative accumulation of sub-hashes. R18.6: the key includes the name of every loaded file. R18.1/R18.2 cover the helpers of the key function. R18.7: '
           'AnalyzerInformation::reopen writes the stored content back unchanged. R18.8: the files.txt lookup returns a tail match only when no entry has exactly the path.',
    'C19': 'R19.2 also requires Settings::includePaths in the key. R19.4: option flags are position-coded or use distinct literal markers. R19.5: the suppression dump used '
           'for the key omits inline suppressions only. R19.3/R19.4 follow the helpers calculateHash calls in its file. R19.6: no string stream of the key composition is constructed from text '
           'without ios_base::ate and then written from offset 0.',
    'C20': 'R20.5: in CppCheck::checkInternal no call that can report a finding is executed after a call that reaches AnalyzerInformation::close(). R20.6: reopen keeps the stored '
           'content. R20.7: nothing in cli/ or lib/ calls Settings::terminate() except the option parser (no soft stop that would close partial cache files).',
    'C21': 'R21.5: every removal from the list of pending read pipes is dominated by "handleRead returned false". R21.6: maps keyed by a pipe descriptor drop the entry where the '
           'descriptor is closed.',
    'C22': 'R22.6: the reader keeps every parsed record. R22.7: numeric members are restored through a conversion whose type covers the member type. R22.8: all writers of the '
           'my-id / call-id join keys encode the id the same way.',
    'C23': 'R23.5: Settings::basePaths is read in lib/ only as the argument of Path::getRelativePath (one implementation for finding and suppression file names). R23.6: the macro arm of '
           'Suppression::isSuppressed does not match on the file of the #define.',
    'C26': 'R26.6: the duplicate filter in front of the text / XML / SARIF writers does not depend on the output format (its dependence on --template is a known finding). R26.7: the '
           'level and locations of a SARIF result are computed from the finding itself, not looked up by rule id. R26.8: the SARIF result loop skips no finding (one known finding: findings '
           'without a location).',
    'C27': 'R27.3: functions that select one ValueFlow::Value test the severity / certainty options only after the selection loop. R27.4: an option test passed as an argument to a '
           'data-returning function is used there only as a pure gate, never combined with data to steer a search. R27.5: no Check modifies its member state inside a branch controlled by '
           'a severity / certainty test (one known finding: diag() under --inconclusive in checkDuplicateExpression).',
    'C28': 'R28.4: CppCheck::getErrorMessages passes the caller\'s logger to every documentation emitter.',
    'C29': 'Containers with a user comparator that compares the pointers themselves count as address-ordered; key types that are template parameters are resolved through the '
           'call sites; appends to sequence containers and early exits count as order-capturing (one known finding: productParams).',
    'C34': 'R34.6: internal (ctuinfo) messages pass the executors\' gate unfiltered. R34.7: the whole-program stage deletes only its own temporary file, never the per-file ctu-info '
           'files of the build dir; every non-trivial exit of executeAddonsWholeProgram has run the addons. R34.8: AddonInfo members parsed from the JSON configuration are not overwritten by '
           'the functions called after parsing.',
    'C36': 'R36.3: the grouping loop iterates the complete list built by the SAX handler (alias, order-only derivation, or a helper that keeps every element). R36.4: no groupby on '
           'unsorted input / dict keyed on a non-unique field of a finding. R36.5: the per-file page annotates every finding of a line on every path.',
    'C24': 'R24.2 counts Suppression::isSuppressed among the parent-side consumers; R24.3 requires add-or-merge on the failure path of addSuppression and a monotone (OR) merge in '
           'updateSuppressionState.',
    'C30': 'R30.2: per-argument configuration is looked up by argument number only through Library::getarg (which implements the any/variadic fallback).',
    'C25': 'R25.1 accepts accounting before or after the forward on every path (post-dominance). R25.5: the exit-code accumulator is reset only in the prologue of checkInternal. R25.6: every '
           'return of checkInternal that may follow a report returns the accumulator.',
}
for _k, _v in EXTRA.items():
    if _k in CLAIMS:
        CLAIMS[_k]['text'] = CLAIMS[_k]['text'].rstrip() + ' Added rules: ' + _v


NOT_APPLICABLE = {
    'C01': 'soundness of inferred values vs. concrete executions of arbitrary programs; needs an executing/symbolic oracle, no structural necessary condition in valueflow.cpp',
    'C02': 'same as C01, for container sizes',
    'C03': 'truth of reported always-true/false verdicts is a relation to program executions',
    'C04': '"no false positive on any correct program" quantifies over program semantics',
    'C06': 'equivalence of simplifier output with hand expansion over all programs',
    'C08': 'agreement with a reference compiler\'s name lookup over all programs (differential, not source analysis)',
    'C09': 'correctness of the conversion-rule computation over all operand type combinations is a function-correctness proof; the platform table it reads is decided under C10',
    'C11': 'output equivalence with a reference preprocessor over all sources',
    'C35': 'consistency with clang\'s resolution and crash-freedom on arbitrary AST dumps are value-dependent',
}


def main():
    props = [json.loads(l) for l in open(os.path.join(VERIF, 'properties.jsonl'))]
    ids = [p['id'] for p in props]
    # a property with neither a rule module nor an N/A reason is listed N/A "not built yet"
    checks = []
    na = []
    for pid in ids:
        if pid in CLAIMS and os.path.exists(os.path.join(VERIF, 'rules', pid + '.py')):
            c = CLAIMS[pid]
            checks.append({
                'property_id': pid,
                'quick_cmd': './check %s --tier quick' % pid,
                'thorough_cmd': './check %s --tier thorough' % pid,
                'evidence_file': 'evidence/%s.json' % pid,
                'replay_cmd_template': './check %s --replay {path}' % pid,
                'engine': 'cppfacts+rules',
                'level_claimed': {'category': 'other', 'text': c['text'], 'design_ref': c['design']},
                'level_note': NOTE_COMMON + c['note'],
                'technique': c['technique'],
            })
        else:
            na.append({'property_id': pid,
                       'reason': NOT_APPLICABLE.get(pid, 'no sound static rule built for this property (see DESIGN.md section 3/%s); not claimed' % pid)})
    m = {
        'version': 1,
        'setup_cmd': 'make -s -C /verif/tools/cppfacts',
        'hooks': {
            'guard': 'DANMAR_CPPCHECK_VERIF',
            'enable': 'none needed: the checks read the sources; no instrumentation is compiled in',
            'baseline_off_cmd': 'cmake --build /repo/_build -j16 && ctest --test-dir /repo/_build -j8 --timeout 900',
            'source_commits': [],
            'add_only': True,
        },
        'engines': [
            {'name': 'cppfacts+rules', 'path': 'tools/cppfacts/cppfacts.cc, rules/',
             'serves_properties': [c['property_id'] for c in checks],
             'kind_free_text': 'clang-14 libTooling extractor (resolved compact AST + call/throw/access facts for all 85 units) '
                               'and repository-specific Python rules; Python ast for shipped scripts'},
        ],
        'checks': checks,
        'not_applicable': na,
        'notes': 'Static analysis only. exit 0 = all rule instances hold (KNOWN-FINDING lines for listed genuine defects), '
                 'exit 1 = VIOLATION line, exit 2 = analysis broken (anchor vanished / floor not met). '
                 'Genuine defects repaired in /repo are "fix:" commits listed in known_findings.json under "fixed".',
    }
    p = os.path.join(VERIF, 'MANIFEST.json')
    with open(p, 'w') as f:
        json.dump(m, f, indent=1)
        f.write('\n')
    try:
        import jsonschema
        jsonschema.validate(m, json.load(open('/root/.vp/MANIFEST.schema.json')))
        print('MANIFEST.json valid: %d checks, %d not applicable' % (len(checks), len(na)))
    except ImportError:
        print('MANIFEST.json written (jsonschema not importable here): %d checks' % len(checks))


if __name__ == '__main__':
    main()
