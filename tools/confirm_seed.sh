#!/bin/bash
# confirm_seed.sh <name> <dir with patch.diff and demo.sh>
# Confirms a seeded change in a scratch worktree of /repo HEAD: applies, builds, runs the 112-test suite,
# runs the demonstration with the changed and the unchanged binary. Writes <dir>/confirm.log. Removes the worktree.
set -u
name=$1; dir=$2
wt=/tmp/confirm_$name
log=$dir/confirm.log
: > $log
git -C /repo worktree remove --force $wt >/dev/null 2>&1
git -C /repo worktree add -f --detach $wt HEAD >>$log 2>&1 || exit 2
if ! git -C $wt apply --whitespace=nowarn $dir/patch.diff >>$log 2>&1; then echo "APPLY: FAILED" >>$log; git -C /repo worktree remove --force $wt; exit 2; fi
echo "APPLY: ok (on $(git -C /repo rev-parse --short HEAD))" >>$log
( cmake -S $wt -B $wt/_build -G Ninja -DBUILD_TESTS=ON -DCMAKE_BUILD_TYPE=RelWithDebInfo >/dev/null 2>&1 && cmake --build $wt/_build -j8 >$wt/build.log 2>&1 )
if [ $? -ne 0 ]; then echo "BUILD: FAILED" >>$log; tail -20 $wt/build.log >>$log; git -C /repo worktree remove --force $wt; exit 2; fi
echo "BUILD: ok" >>$log
ctest --test-dir $wt/_build -j6 --timeout 900 > $wt/ctest.log 2>&1
tail -6 $wt/ctest.log >>$log
failed=$(grep -c "(Failed)" $wt/ctest.log)
if [ "$failed" != "0" ]; then
  echo "re-running failed tests alone (TestCppcheck is flaky under parallel ctest on the pristine tree too)" >>$log
  ctest --test-dir $wt/_build --rerun-failed --timeout 900 2>&1 | tail -4 >>$log
fi
chmod +x $dir/demo.sh
( cd $dir && timeout 1200 ./demo.sh $wt/_build/bin/cppcheck >$wt/demo_changed.log 2>&1 ); echo "DEMO changed binary: exit $?" >>$log
( cd $dir && timeout 1200 ./demo.sh /repo/_build/bin/cppcheck >$wt/demo_orig.log 2>&1 ); echo "DEMO unchanged binary: exit $?" >>$log
tail -5 $wt/demo_changed.log >>$log
git -C /repo worktree remove --force $wt >>$log 2>&1
rm -rf $wt
echo "DONE" >>$log
