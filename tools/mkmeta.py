#!/usr/bin/env python3
"""mkmeta.py <seed dir name> <json with fields>: writes seeded/<name>/meta.json, filling `confirmed` from confirm.log (refuses when the log does not show
apply ok, build ok, tests passed, demo 1/0)."""
import json, os, re, sys
name = sys.argv[1]
fields = json.load(sys.stdin)
d = os.path.join('/verif/seeded', name)
log = open(os.path.join(d, 'confirm.log')).read()
ok = 'APPLY: ok' in log and 'BUILD: ok' in log and re.search(r'100% tests passed', log) and 'DEMO changed binary: exit 1' in log and 'DEMO unchanged binary: exit 0' in log
if not ok and not fields.get('force'):
    sys.exit('confirm.log of %s does not show a confirmed seed:\n%s' % (name, log[-600:]))
head = re.search(r'APPLY: ok \(on (\w+)\)', log)
flake = 'TestCppcheck alone after the known parallel flake' if 'TestCppcheck' in log else 'all 112 in one run'
m = {'id': name, 'author': 'independent sub-agent (given only the property text and a scratch worktree)'}
m.update({k: v for k, v in fields.items() if k != 'force'})
m['confirmed'] = ('tools/confirm_seed.sh on a scratch worktree of /repo at %s: applies, builds, ctest passes (%s), demo.sh exit 1 with the changed binary, exit 0 with '
                  '/repo/_build/bin/cppcheck; see confirm.log' % (head.group(1) if head else '?', flake)) + (' ' + fields['confirm_note'] if fields.get('confirm_note') else '')
m.pop('confirm_note', None)
json.dump(m, open(os.path.join(d, 'meta.json'), 'w'), indent=1)
print('wrote', name)
