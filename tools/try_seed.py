#!/usr/bin/env python3
"""try_seed.py <patch> <prop> [<prop>...]: run checks against a scratch copy of /repo with the patch applied
(does not touch /repo; uses the incremental fact cache like the mutant self-validation)."""
import sys, shutil
sys.path.insert(0, '/verif')
from rules.common import framework as fw
import importlib
patch = sys.argv[1]
for prop in sys.argv[2:]:
    base = fw.Ctx(prop, 'quick', '/repo', quiet=True)
    mod = importlib.import_module('rules.' + prop)
    try:
        mod.run(base)
    except fw.AnalysisBroken as e:
        print(prop, 'base ANALYSIS-BROKEN', e); continue
    base_fail = {o['key'] for o in base.failing()}
    d = fw.scratch_copy('/repo')
    try:
        ok, out = fw.apply_patch(d, patch)
        if not ok:
            print(prop, 'patch does not apply:', out[-300:]); continue
        sub = fw.Ctx(prop, 'quick', d, quiet=True, factsdir=fw.incremental_facts(base, d, patch))
        try:
            mod.run(sub)
        except fw.AnalysisBroken as e:
            print(prop, 'ANALYSIS-BROKEN', str(e)[:400]); continue
        new = [o for o in sub.failing() if o['key'] not in base_fail]
        print(prop, 'new violations:', len(new))
        for o in new[:8]:
            print('   ', o['key'], '|', o['where'], '|', o['what'][:300])
    finally:
        shutil.rmtree(d, ignore_errors=True)
