// cppfacts: libTooling extractor for the /verif static rules.
//
// For one translation unit it writes two JSON-lines files into --out:
//   <unit>.idx.jsonl   one line per record / enum / static-storage variable / function
//                      definition; a function line carries the light whole-program facts
//                      (calls with enclosing handler types, throws, accesses to fields and
//                      to variables with static storage, each classified r/w/m/a/e).
//   <unit>.body.jsonl  one line per function definition: a compact, *resolved* syntax tree
//                      (every reference carries the qualified name of the declaration it
//                      resolves to, every call the id of its callee, every expr its type).
// Entities that live in a header under --root are emitted by exactly one unit: the first
// one that manages to create <out>/claims/<header> with O_EXCL.
//
// Nothing here is specific to a property; the rules are in /verif/rules/*.py.

#include "clang/AST/ASTConsumer.h"
#include "clang/AST/ASTContext.h"
#include "clang/AST/DeclCXX.h"
#include "clang/AST/DeclTemplate.h"
#include "clang/AST/ExprCXX.h"
#include "clang/AST/RecursiveASTVisitor.h"
#include "clang/AST/StmtCXX.h"
#include "clang/Frontend/CompilerInstance.h"
#include "clang/Lex/Lexer.h"
#include "clang/Frontend/FrontendAction.h"
#include "clang/Tooling/CommonOptionsParser.h"
#include "clang/Tooling/Tooling.h"
#include "llvm/Support/CommandLine.h"
#include "llvm/Support/FileSystem.h"
#include "llvm/Support/JSON.h"
#include "llvm/Support/Path.h"
#include "llvm/Support/raw_ostream.h"

#include <fcntl.h>
#include <map>
#include <set>
#include <string>
#include <unistd.h>
#include <vector>

using namespace clang;
using namespace clang::tooling;

static llvm::cl::OptionCategory Cat("cppfacts");
static llvm::cl::opt<std::string> OutDir("out", llvm::cl::desc("output dir"), llvm::cl::Required, llvm::cl::cat(Cat));
static llvm::cl::opt<std::string> Root("root", llvm::cl::desc("source root"), llvm::cl::init("/repo"), llvm::cl::cat(Cat));

namespace {

struct CallFact { std::string fid, fn, kind; unsigned line; bool virt; std::vector<std::string> tr; bool lam; };
struct ThrowFact { std::string type; unsigned line; std::vector<std::string> tr; bool lam; bool rethrow; };
struct AccFact { std::string n, a; unsigned line; bool global; bool viaThis; };

class Extractor {
public:
    Extractor(ASTContext &C, std::string root, std::string outdir, std::string unit)
        : Ctx(C), SM(C.getSourceManager()), PP(C.getLangOpts()), RootDir(std::move(root)), Out(std::move(outdir)), Unit(std::move(unit)) {
        PP.SuppressTagKeyword = true;
        PP.Bool = true;
        PP.SuppressUnwrittenScope = true;
        if (!RootDir.empty() && RootDir.back() != '/')
            RootDir += '/';
    }

    ASTContext &Ctx;
    SourceManager &SM;
    PrintingPolicy PP;
    std::string RootDir, Out, Unit;
    std::map<std::string, bool> OwnCache;

    // ---- locations -------------------------------------------------------------------
    std::string fileOf(SourceLocation L) const {
        L = SM.getExpansionLoc(L);
        if (L.isInvalid())
            return "";
        StringRef f = SM.getFilename(L);
        llvm::SmallString<256> p(f);
        llvm::sys::path::remove_dots(p, true);
        return std::string(p.str());
    }
    unsigned lineOf(SourceLocation L) const { return SM.getExpansionLineNumber(L); }
    unsigned colOf(SourceLocation L) const { return SM.getExpansionColumnNumber(L); }
    bool inRoot(const std::string &f) const { return f.compare(0, RootDir.size(), RootDir) == 0; }
    std::string rel(const std::string &f) const { return inRoot(f) ? f.substr(RootDir.size()) : f; }

    // does this unit emit entities declared at L?
    bool owns(SourceLocation L) {
        std::string f = fileOf(L);
        if (f.empty() || !inRoot(f))
            return false;
        if (SM.isInMainFile(SM.getExpansionLoc(L)))
            return true;
        auto it = OwnCache.find(f);
        if (it != OwnCache.end())
            return it->second;
        std::string key = rel(f);
        for (char &c : key)
            if (c == '/')
                c = '!';
        std::string path = Out + "/claims/" + key;
        int fd = ::open(path.c_str(), O_CREAT | O_EXCL | O_WRONLY, 0644);
        bool mine = false;
        if (fd >= 0) {
            (void)!::write(fd, Unit.c_str(), Unit.size());
            ::close(fd);
            mine = true;
        }
        OwnCache[f] = mine;
        return mine;
    }

    // ---- names -----------------------------------------------------------------------
    std::string ty(QualType T) const {
        if (T.isNull())
            return "";
        return T.getAsString(PP);
    }
    std::string qname(const NamedDecl *D) const {
        if (!D)
            return "";
        std::string s;
        llvm::raw_string_ostream os(s);
        D->printQualifiedName(os, PP);
        return os.str();
    }
    std::string fid(const FunctionDecl *F) const {
        if (!F)
            return "";
        if (const FunctionDecl *P = F->getTemplateInstantiationPattern())
            F = P;
        F = F->getCanonicalDecl(); // one spelling of the parameter types for declaration, definition and calls
        std::string s = qname(F);
        s += "(";
        bool first = true;
        for (const ParmVarDecl *P : F->parameters()) {
            if (!first)
                s += ",";
            first = false;
            s += ty(P->getType());
        }
        if (F->isVariadic())
            s += first ? "..." : ",...";
        s += ")";
        if (const auto *M = dyn_cast<CXXMethodDecl>(F))
            if (M->isConst())
                s += " const";
        return s;
    }
    std::string declId(const Decl *D) const {
        SourceLocation L = D->getLocation();
        return std::to_string(lineOf(L)) + ":" + std::to_string(colOf(L));
    }

    // ---- per-function state ------------------------------------------------------------
    std::vector<const Stmt *> Stack;
    std::vector<std::vector<std::string>> Tries; // handler types of enclosing try blocks (this function)
    std::vector<size_t> LambdaTryBase;           // Tries.size() at entry of each enclosing lambda
    std::vector<CallFact> Calls;
    std::vector<ThrowFact> Throws;
    std::vector<AccFact> Accs;
    std::map<const Expr *, const VarDecl *> InitOf;
    const FunctionDecl *CurFn = nullptr;

    std::vector<std::string> tryCtx() const {
        std::vector<std::string> r;
        size_t base = LambdaTryBase.empty() ? 0 : LambdaTryBase.back();
        for (size_t i = Tries.size(); i > base; --i)
            for (const std::string &t : Tries[i - 1])
                r.push_back(t);
        return r;
    }

    static bool isNonConstLRef(QualType T) {
        if (const auto *R = T->getAs<LValueReferenceType>())
            return !R->getPointeeType().isConstQualified();
        return false;
    }
    static bool isNonConstRefOrPtr(QualType T) {
        if (isNonConstLRef(T))
            return true;
        if (const auto *P = T->getAs<PointerType>())
            return !P->getPointeeType().isConstQualified();
        return false;
    }

    // classify how the lvalue denoted by `ref` (top of Stack is its parent) is used
    std::string classify(const Expr *ref) {
        const Stmt *cur = ref;
        bool addr = false; // we are now following the address of the object
        for (size_t i = Stack.size(); i > 0; --i) {
            const Stmt *P = Stack[i - 1];
            if (isa<ParenExpr>(P) || isa<MaterializeTemporaryExpr>(P) || isa<ExprWithCleanups>(P) ||
                isa<CXXBindTemporaryExpr>(P) || isa<ConstantExpr>(P) || isa<ConditionalOperator>(P)) {
                if (const auto *CO = dyn_cast<ConditionalOperator>(P))
                    if (CO->getCond() == cur)
                        return "r";
                cur = P;
                continue;
            }
            if (const auto *IC = dyn_cast<ImplicitCastExpr>(P)) {
                switch (IC->getCastKind()) {
                case CK_LValueToRValue:
                    return addr ? "a" : "r";
                case CK_NoOp:
                case CK_DerivedToBase:
                case CK_UncheckedDerivedToBase:
                    cur = P;
                    continue;
                case CK_ArrayToPointerDecay:
                    cur = P;
                    addr = true;
                    continue;
                default:
                    return addr ? "a" : "r";
                }
            }
            if (const auto *EC = dyn_cast<ExplicitCastExpr>(P)) {
                QualType T = EC->getTypeAsWritten();
                if (isNonConstRefOrPtr(T))
                    return "e:cast";
                if (T->isReferenceType() || T->isPointerType()) {
                    cur = P;
                    continue;
                }
                return "r";
            }
            if (const auto *ME = dyn_cast<MemberExpr>(P)) {
                if (ME->getBase() != cur)
                    return "r";
                if (const auto *MD = dyn_cast<CXXMethodDecl>(ME->getMemberDecl())) {
                    if (ME->isArrow() && !addr)
                        return "r"; // p->method(): reads the pointer p
                    if (MD->isConst() || MD->isStatic())
                        return "r";
                    return "m:" + MD->getNameAsString();
                }
                if (ME->isArrow() && !addr)
                    return "r";
                cur = P;
                addr = false;
                continue;
            }
            if (const auto *AS = dyn_cast<ArraySubscriptExpr>(P)) {
                if (AS->getBase() == cur || (addr && AS->getLHS() == cur)) {
                    if (addr) {
                        addr = false;
                        cur = P;
                        continue;
                    }
                    return "r";
                }
                return "r";
            }
            if (const auto *UO = dyn_cast<UnaryOperator>(P)) {
                if (UO->isIncrementDecrementOp())
                    return addr ? "a" : "w";
                if (UO->getOpcode() == UO_AddrOf) {
                    cur = P;
                    addr = true;
                    continue;
                }
                if (UO->getOpcode() == UO_Deref && addr) {
                    addr = false;
                    cur = P;
                    continue;
                }
                return "r";
            }
            if (const auto *BO = dyn_cast<BinaryOperator>(P)) {
                if (BO->isAssignmentOp() && BO->getLHS() == cur)
                    return addr ? "r" : "w";
                if (BO->getOpcode() == BO_Comma && BO->getRHS() == cur) {
                    cur = P;
                    continue;
                }
                return addr ? "a" : "r";
            }
            if (const auto *OC = dyn_cast<CXXOperatorCallExpr>(P)) {
                const FunctionDecl *FD = OC->getDirectCallee();
                if (!FD)
                    return "o";
                unsigned idx = ~0u;
                for (unsigned a = 0; a < OC->getNumArgs(); ++a)
                    if (OC->getArg(a) == cur)
                        idx = a;
                if (idx == ~0u)
                    return "r";
                if (const auto *MD = dyn_cast<CXXMethodDecl>(FD)) {
                    if (!MD->isStatic()) {
                        if (idx == 0)
                            return MD->isConst() ? "r" : ("m:" + MD->getNameAsString());
                        idx -= 1;
                    }
                }
                if (idx < FD->getNumParams()) {
                    QualType PT = FD->getParamDecl(idx)->getType();
                    if (isNonConstLRef(PT) || (addr && isNonConstRefOrPtr(PT)))
                        return "e:" + FD->getNameAsString();
                }
                return addr ? "a" : "r";
            }
            if (const auto *CE = dyn_cast<CallExpr>(P)) {
                const FunctionDecl *FD = CE->getDirectCallee();
                for (unsigned a = 0; a < CE->getNumArgs(); ++a)
                    if (CE->getArg(a) == cur) {
                        if (FD && a < FD->getNumParams()) {
                            QualType PT = FD->getParamDecl(a)->getType();
                            if (isNonConstLRef(PT) || (addr && isNonConstRefOrPtr(PT)))
                                return "e:" + FD->getNameAsString();
                            return addr ? "a" : "r";
                        }
                        return addr ? "a" : "o";
                    }
                return "r";
            }
            if (const auto *CC = dyn_cast<CXXConstructExpr>(P)) {
                const CXXConstructorDecl *FD = CC->getConstructor();
                for (unsigned a = 0; a < CC->getNumArgs(); ++a)
                    if (CC->getArg(a) == cur) {
                        if (FD && a < FD->getNumParams()) {
                            QualType PT = FD->getParamDecl(a)->getType();
                            if (isNonConstLRef(PT) || (addr && isNonConstRefOrPtr(PT)))
                                return "e:" + FD->getNameAsString();
                        }
                        return addr ? "a" : "r";
                    }
                return "r";
            }
            if (const auto *RS = dyn_cast<ReturnStmt>(P)) {
                (void)RS;
                if (CurFn && isNonConstRefOrPtr(CurFn->getReturnType()) && (addr || CurFn->getReturnType()->isReferenceType()))
                    return "e:return";
                return addr ? "a" : "r";
            }
            if (const auto *FR = dyn_cast<CXXForRangeStmt>(P)) {
                if (FR->getRangeInit() == cur) {
                    if (const VarDecl *LV = FR->getLoopVariable())
                        if (isNonConstLRef(LV->getType()))
                            return "e:rangefor";
                    return "r";
                }
                return "r";
            }
            if (isa<DeclStmt>(P)) {
                auto it = InitOf.find(dyn_cast<Expr>(cur));
                if (it != InitOf.end()) {
                    QualType T = it->second->getType();
                    if (isNonConstLRef(T) || (addr && isNonConstRefOrPtr(T)))
                        return "e:bind";
                    if (T->isReferenceType())
                        return "r";
                }
                return addr ? "a" : "r";
            }
            if (isa<InitListExpr>(P) || isa<CXXNewExpr>(P) || isa<LambdaExpr>(P))
                return addr ? "a" : "r";
            return addr ? "a" : "r";
        }
        return addr ? "a" : "r";
    }

    // ---- body walk ---------------------------------------------------------------------
    void loc(llvm::json::OStream &J, SourceLocation L) {
        J.attribute("l", (int64_t)lineOf(L));
        J.attribute("col", (int64_t)colOf(L));
        if (L.isMacroID()) {
            // name of the macro as written at the expansion point (WIFEXITED, EXIT_FAILURE, ...)
            SourceLocation E = SM.getExpansionLoc(L);
            llvm::SmallString<32> buf;
            bool invalid = false;
            StringRef t = Lexer::getSpelling(E, buf, SM, Ctx.getLangOpts(), &invalid);
            if (!invalid && !t.empty() && t.size() < 48)
                J.attribute("mac", t);
        }
    }

    void walkVarDecl(llvm::json::OStream &J, const VarDecl *V) {
        J.object([&] {
            J.attribute("k", isa<ParmVarDecl>(V) ? "ParmVarDecl" : "VarDecl");
            loc(J, V->getLocation());
            J.attribute("n", V->getNameAsString());
            J.attribute("t", ty(V->getType()));
            J.attribute("di", declId(V));
            if (V->isStaticLocal())
                J.attribute("static", true);
            if (V->hasInit()) {
                const Expr *I = V->getInit();
                InitOf[I] = V;
                // also map through wrappers so that classify() finds it
                const Expr *X = I;
                while (true) {
                    if (const auto *E = dyn_cast<ExprWithCleanups>(X))
                        X = E->getSubExpr();
                    else if (const auto *M = dyn_cast<MaterializeTemporaryExpr>(X))
                        X = M->getSubExpr();
                    else if (const auto *B = dyn_cast<CXXBindTemporaryExpr>(X))
                        X = B->getSubExpr();
                    else
                        break;
                    InitOf[X] = V;
                }
                J.attributeBegin("init");
                walk(J, I);
                J.attributeEnd();
            }
        });
    }

    void kids(llvm::json::OStream &J, const Stmt *S) {
        bool any = false;
        for (const Stmt *C : S->children())
            if (C)
                any = true;
        if (!any)
            return;
        J.attributeBegin("c");
        J.arrayBegin();
        Stack.push_back(S);
        for (const Stmt *C : S->children())
            if (C)
                walk(J, C);
        Stack.pop_back();
        J.arrayEnd();
        J.attributeEnd();
    }

    void named(llvm::json::OStream &J, const char *key, const Stmt *parent, const Stmt *S) {
        if (!S)
            return;
        J.attributeBegin(key);
        Stack.push_back(parent);
        walk(J, S);
        Stack.pop_back();
        J.attributeEnd();
    }

    void recordCall(const FunctionDecl *FD, SourceLocation L, const char *kind, bool virt) {
        if (!FD)
            return;
        CallFact c;
        c.fid = fid(FD);
        c.fn = qname(FD);
        c.kind = kind;
        c.line = lineOf(L);
        c.virt = virt;
        c.tr = tryCtx();
        c.lam = !LambdaTryBase.empty();
        Calls.push_back(std::move(c));
    }

    void walk(llvm::json::OStream &J, const Stmt *S) {
        if (!S) {
            J.value(nullptr);
            return;
        }
        // transparent wrappers
        if (const auto *E = dyn_cast<ExprWithCleanups>(S)) { Stack.push_back(S); walk(J, E->getSubExpr()); Stack.pop_back(); return; }
        if (const auto *E = dyn_cast<MaterializeTemporaryExpr>(S)) { Stack.push_back(S); walk(J, E->getSubExpr()); Stack.pop_back(); return; }
        if (const auto *E = dyn_cast<CXXBindTemporaryExpr>(S)) { Stack.push_back(S); walk(J, E->getSubExpr()); Stack.pop_back(); return; }
        if (const auto *E = dyn_cast<ConstantExpr>(S)) { Stack.push_back(S); walk(J, E->getSubExpr()); Stack.pop_back(); return; }
        if (const auto *E = dyn_cast<ParenExpr>(S)) { Stack.push_back(S); walk(J, E->getSubExpr()); Stack.pop_back(); return; }
        if (const auto *E = dyn_cast<CXXDefaultArgExpr>(S)) {
            J.object([&] {
                J.attribute("k", "DefaultArg");
                loc(J, S->getBeginLoc());
                J.attribute("t", ty(E->getType()));
                if (E->getExpr() && inRoot(fileOf(E->getExpr()->getBeginLoc()))) {
                    J.attributeBegin("c");
                    J.arrayBegin();
                    Stack.push_back(S);
                    walk(J, E->getExpr());
                    Stack.pop_back();
                    J.arrayEnd();
                    J.attributeEnd();
                }
            });
            return;
        }
        if (const auto *E = dyn_cast<CXXDefaultInitExpr>(S)) {
            J.object([&] {
                J.attribute("k", "DefaultInit");
                loc(J, S->getBeginLoc());
                (void)E;
            });
            return;
        }

        J.object([&] {
            J.attribute("k", S->getStmtClassName());
            loc(J, S->getBeginLoc());
            if (const auto *E = dyn_cast<Expr>(S)) {
                if (!isa<IntegerLiteral>(E) && !isa<StringLiteral>(E) && !isa<CXXBoolLiteralExpr>(E))
                    J.attribute("t", ty(E->getType()));
            }

            if (const auto *I = dyn_cast<IfStmt>(S)) {
                named(J, "init", S, I->getInit());
                if (I->getConditionVariable())
                    named(J, "condvar", S, I->getConditionVariableDeclStmt());
                named(J, "cond", S, I->getCond());
                named(J, "then", S, I->getThen());
                named(J, "else", S, I->getElse());
                return;
            }
            if (const auto *W = dyn_cast<WhileStmt>(S)) {
                if (W->getConditionVariable())
                    named(J, "condvar", S, W->getConditionVariableDeclStmt());
                named(J, "cond", S, W->getCond());
                named(J, "body", S, W->getBody());
                return;
            }
            if (const auto *D = dyn_cast<DoStmt>(S)) {
                named(J, "body", S, D->getBody());
                named(J, "cond", S, D->getCond());
                return;
            }
            if (const auto *F = dyn_cast<ForStmt>(S)) {
                named(J, "init", S, F->getInit());
                named(J, "cond", S, F->getCond());
                named(J, "inc", S, F->getInc());
                named(J, "body", S, F->getBody());
                return;
            }
            if (const auto *F = dyn_cast<CXXForRangeStmt>(S)) {
                if (const VarDecl *LV = F->getLoopVariable()) {
                    J.attributeBegin("var");
                    // do not walk the hidden *__begin init
                    J.object([&] {
                        J.attribute("k", "VarDecl");
                        loc(J, LV->getLocation());
                        J.attribute("n", LV->getNameAsString());
                        J.attribute("t", ty(LV->getType()));
                        J.attribute("di", declId(LV));
                    });
                    J.attributeEnd();
                }
                named(J, "range", S, F->getRangeInit());
                named(J, "body", S, F->getBody());
                return;
            }
            if (const auto *W = dyn_cast<SwitchStmt>(S)) {
                named(J, "init", S, W->getInit());
                named(J, "cond", S, W->getCond());
                named(J, "body", S, W->getBody());
                return;
            }
            if (const auto *C = dyn_cast<CaseStmt>(S)) {
                named(J, "val", S, C->getLHS());
                Expr::EvalResult R;
                if (C->getLHS() && !C->getLHS()->isValueDependent() && C->getLHS()->EvaluateAsInt(R, Ctx))
                    J.attribute("cv", R.Val.getInt().getExtValue());
                named(J, "sub", S, C->getSubStmt());
                return;
            }
            if (const auto *D = dyn_cast<DefaultStmt>(S)) {
                named(J, "sub", S, D->getSubStmt());
                return;
            }
            if (const auto *T = dyn_cast<CXXTryStmt>(S)) {
                std::vector<std::string> hs;
                for (unsigned i = 0; i < T->getNumHandlers(); ++i) {
                    const CXXCatchStmt *H = T->getHandler(i);
                    hs.push_back(H->getExceptionDecl() ? ty(H->getCaughtType().getNonReferenceType().getUnqualifiedType()) : "...");
                }
                J.attributeBegin("c");
                J.arrayBegin();
                Stack.push_back(S);
                Tries.push_back(hs);
                walk(J, T->getTryBlock());
                Tries.pop_back();
                for (unsigned i = 0; i < T->getNumHandlers(); ++i)
                    walk(J, T->getHandler(i));
                Stack.pop_back();
                J.arrayEnd();
                J.attributeEnd();
                return;
            }
            if (const auto *H = dyn_cast<CXXCatchStmt>(S)) {
                J.attribute("ct", H->getExceptionDecl() ? ty(H->getCaughtType().getNonReferenceType().getUnqualifiedType()) : "...");
                if (H->getExceptionDecl())
                    J.attribute("n", H->getExceptionDecl()->getNameAsString());
                kids(J, S);
                return;
            }
            if (const auto *D = dyn_cast<DeclStmt>(S)) {
                J.attributeBegin("decls");
                J.arrayBegin();
                Stack.push_back(S);
                for (const Decl *X : D->decls()) {
                    if (const auto *V = dyn_cast<VarDecl>(X))
                        walkVarDecl(J, V);
                }
                Stack.pop_back();
                J.arrayEnd();
                J.attributeEnd();
                return;
            }
            if (const auto *L = dyn_cast<LambdaExpr>(S)) {
                // A lambda body normally runs while the enclosing full-expression / function is active (passed to an
                // algorithm, Timer::run, or called through a local variable), so it keeps the enclosing handlers.  It is
                // detached only when it is handed to std::async / std::thread or stored in a data member.
                bool detached = false;
                for (size_t i = Stack.size(); i > 0; --i) {
                    const Stmt *P = Stack[i - 1];
                    if (isa<ImplicitCastExpr>(P) || isa<MaterializeTemporaryExpr>(P) || isa<ExprWithCleanups>(P) ||
                        isa<CXXBindTemporaryExpr>(P) || isa<CXXConstructExpr>(P) || isa<CXXFunctionalCastExpr>(P))
                        continue;
                    if (const auto *CE = dyn_cast<CallExpr>(P)) {
                        if (const FunctionDecl *FD = CE->getDirectCallee()) {
                            std::string n = qname(FD);
                            if (n == "std::async" || n == "std::thread::thread")
                                detached = true;
                        }
                        if (const auto *OC = dyn_cast<CXXOperatorCallExpr>(P))
                            if (OC->getOperator() == OO_Equal && OC->getNumArgs() > 0 && isa<MemberExpr>(OC->getArg(0)->IgnoreParenImpCasts()))
                                detached = true;
                    }
                    break;
                }
                LambdaTryBase.push_back(detached ? Tries.size() : (LambdaTryBase.empty() ? 0 : LambdaTryBase.back()));
                J.attributeBegin("params");
                J.arrayBegin();
                if (const CXXMethodDecl *Op = L->getCallOperator())
                    for (const ParmVarDecl *P : Op->parameters())
                        J.object([&] {
                            J.attribute("n", P->getNameAsString());
                            J.attribute("t", ty(P->getType()));
                            J.attribute("di", declId(P));
                        });
                J.arrayEnd();
                J.attributeEnd();
                // capture initialisers (init-captures) are children too
                J.attributeBegin("c");
                J.arrayBegin();
                Stack.push_back(S);
                for (const Expr *CI : L->capture_inits())
                    if (CI)
                        walk(J, CI);
                Stack.pop_back();
                J.arrayEnd();
                J.attributeEnd();
                named(J, "body", S, L->getBody());
                LambdaTryBase.pop_back();
                return;
            }
            if (const auto *T = dyn_cast<CXXThrowExpr>(S)) {
                ThrowFact f;
                f.line = lineOf(S->getBeginLoc());
                f.tr = tryCtx();
                f.lam = !LambdaTryBase.empty();
                f.rethrow = T->getSubExpr() == nullptr;
                if (T->getSubExpr()) {
                    f.type = ty(T->getSubExpr()->getType().getNonReferenceType().getUnqualifiedType());
                }
                J.attribute("tt", f.type);
                Throws.push_back(f);
                kids(J, S);
                return;
            }
            if (const auto *R = dyn_cast<DeclRefExpr>(S)) {
                const ValueDecl *D = R->getDecl();
                J.attribute("n", qname(D));
                J.attribute("dk", D->getDeclKindName());
                if (const auto *V = dyn_cast<VarDecl>(D)) {
                    if (V->hasGlobalStorage()) {
                        J.attribute("g", true);
                        AccFact a;
                        a.n = qname(V);
                        if (V->isStaticLocal())
                            if (const auto *PF = dyn_cast_or_null<FunctionDecl>(V->getParentFunctionOrMethod()))
                                a.n = qname(PF) + "::" + V->getNameAsString() + "@static";
                        a.a = classify(R);
                        a.line = lineOf(S->getBeginLoc());
                        a.global = true;
                        a.viaThis = false;
                        J.attribute("a", a.a);
                        Accs.push_back(a);
                    } else {
                        J.attribute("di", declId(V));
                    }
                } else if (const auto *F = dyn_cast<FunctionDecl>(D)) {
                    J.attribute("fid", fid(F));
                    // address of a function taken (not the callee position of a call)
                    bool callee = false;
                    for (size_t i = Stack.size(); i > 0; --i) {
                        const Stmt *P = Stack[i - 1];
                        if (isa<ImplicitCastExpr>(P) || isa<ParenExpr>(P))
                            continue;
                        if (const auto *CE = dyn_cast<CallExpr>(P)) {
                            const Expr *cal = CE->getCallee()->IgnoreParenImpCasts();
                            callee = (cal == R);
                        }
                        break;
                    }
                    if (!callee)
                        recordCall(F, S->getBeginLoc(), "addr", false);
                } else if (isa<BindingDecl>(D)) {
                    J.attribute("di", declId(D));
                }
                return;
            }
            if (const auto *M = dyn_cast<MemberExpr>(S)) {
                const ValueDecl *D = M->getMemberDecl();
                J.attribute("n", qname(D));
                J.attribute("dk", D->getDeclKindName());
                if (M->isArrow())
                    J.attribute("arrow", true);
                bool viaThis = isa<CXXThisExpr>(M->getBase()->IgnoreParenImpCasts());
                if (viaThis)
                    J.attribute("this", true);
                if (const auto *F = dyn_cast<FunctionDecl>(D)) {
                    J.attribute("fid", fid(F));
                } else if (isa<FieldDecl>(D) || isa<VarDecl>(D)) {
                    AccFact a;
                    a.n = qname(D);
                    a.a = classify(M);
                    a.line = lineOf(M->getMemberLoc());
                    a.global = isa<VarDecl>(D);
                    a.viaThis = viaThis;
                    J.attribute("a", a.a);
                    Accs.push_back(a);
                }
                kids(J, S);
                return;
            }
            if (const auto *C = dyn_cast<CXXConstructExpr>(S)) {
                const CXXConstructorDecl *D = C->getConstructor();
                J.attribute("fid", fid(D));
                J.attribute("cls", qname(D->getParent()));
                recordCall(D, S->getBeginLoc(), "ctor", false);
                kids(J, S);
                return;
            }
            if (const auto *C = dyn_cast<CallExpr>(S)) {
                const FunctionDecl *FD = C->getDirectCallee();
                bool virt = false;
                if (const auto *MC = dyn_cast<CXXMemberCallExpr>(C)) {
                    if (const CXXMethodDecl *MD = MC->getMethodDecl()) {
                        const auto *ME = dyn_cast<MemberExpr>(MC->getCallee()->IgnoreParens());
                        virt = MD->isVirtual() && !(ME && ME->hasQualifier());
                    }
                }
                if (FD) {
                    J.attribute("fid", fid(FD));
                    J.attribute("fn", qname(FD));
                    if (virt)
                        J.attribute("virt", true);
                    recordCall(FD, S->getBeginLoc(), "call", virt);
                } else {
                    // indirect / dependent call: note the spelled callee if any
                    const Expr *cal = C->getCallee()->IgnoreParenImpCasts();
                    if (const auto *UL = dyn_cast<UnresolvedLookupExpr>(cal))
                        J.attribute("un", UL->getName().getAsString());
                    else if (const auto *UM = dyn_cast<UnresolvedMemberExpr>(cal))
                        J.attribute("un", UM->getMemberName().getAsString());
                    else if (const auto *DM = dyn_cast<CXXDependentScopeMemberExpr>(cal))
                        J.attribute("un", DM->getMember().getAsString());
                    J.attribute("indirect", true);
                }
                if (const auto *OC = dyn_cast<CXXOperatorCallExpr>(C))
                    J.attribute("op", getOperatorSpelling(OC->getOperator()));
                kids(J, S);
                return;
            }
            if (const auto *B = dyn_cast<BinaryOperator>(S)) {
                J.attribute("op", B->getOpcodeStr());
                kids(J, S);
                return;
            }
            if (const auto *U = dyn_cast<UnaryOperator>(S)) {
                J.attribute("op", UnaryOperator::getOpcodeStr(U->getOpcode()));
                if (U->isPostfix())
                    J.attribute("post", true);
                kids(J, S);
                return;
            }
            if (const auto *C = dyn_cast<CastExpr>(S)) {
                J.attribute("ck", C->getCastKindName());
                if (const auto *EC = dyn_cast<ExplicitCastExpr>(S))
                    J.attribute("tw", ty(EC->getTypeAsWritten()));
                kids(J, S);
                return;
            }
            if (const auto *L = dyn_cast<IntegerLiteral>(S)) {
                llvm::SmallString<32> s;
                L->getValue().toString(s, 10, L->getType()->isSignedIntegerType());
                J.attribute("v", s.str());
                return;
            }
            if (const auto *L = dyn_cast<CharacterLiteral>(S)) {
                J.attribute("v", (int64_t)L->getValue());
                return;
            }
            if (const auto *L = dyn_cast<CXXBoolLiteralExpr>(S)) {
                J.attribute("v", L->getValue());
                return;
            }
            if (const auto *L = dyn_cast<StringLiteral>(S)) {
                if (L->getCharByteWidth() == 1) {
                    std::string b = L->getBytes().str();
                    if (llvm::json::isUTF8(b))
                        J.attribute("v", b);
                    else
                        J.attribute("v", llvm::json::fixUTF8(b));
                } else {
                    J.attribute("wide", true);
                }
                return;
            }
            if (const auto *L = dyn_cast<FloatingLiteral>(S)) {
                llvm::SmallString<32> s;
                L->getValue().toString(s);
                J.attribute("v", s.str());
                return;
            }
            if (const auto *U = dyn_cast<UnaryExprOrTypeTraitExpr>(S)) {
                J.attribute("trait", (int64_t)U->getKind());
                if (U->isArgumentType())
                    J.attribute("at", ty(U->getArgumentType()));
                kids(J, S);
                return;
            }
            if (const auto *N = dyn_cast<CXXNewExpr>(S)) {
                J.attribute("at", ty(N->getAllocatedType()));
                kids(J, S);
                return;
            }
            if (const auto *DM = dyn_cast<CXXDependentScopeMemberExpr>(S)) {
                J.attribute("un", DM->getMember().getAsString());
                kids(J, S);
                return;
            }
            if (const auto *UL = dyn_cast<UnresolvedLookupExpr>(S)) {
                J.attribute("un", UL->getName().getAsString());
                return;
            }
            if (const auto *UM = dyn_cast<UnresolvedMemberExpr>(S)) {
                J.attribute("un", UM->getMemberName().getAsString());
                kids(J, S);
                return;
            }
            if (const auto *G = dyn_cast<GotoStmt>(S)) {
                J.attribute("label", G->getLabel()->getNameAsString());
                return;
            }
            if (const auto *Lb = dyn_cast<LabelStmt>(S)) {
                J.attribute("label", Lb->getDecl()->getNameAsString());
                kids(J, S);
                return;
            }
            kids(J, S);
        });
    }

    // ---- top-level entities --------------------------------------------------------------
    std::unique_ptr<llvm::raw_fd_ostream> Idx, Body;

    void open() {
        std::error_code EC;
        Idx.reset(new llvm::raw_fd_ostream(Out + "/" + Unit + ".idx.jsonl", EC));
        Body.reset(new llvm::raw_fd_ostream(Out + "/" + Unit + ".body.jsonl", EC));
    }

    void emitFunction(const FunctionDecl *F) {
        if (!F->doesThisDeclarationHaveABody())
            return;
        if (F->isDefaulted() && !F->isUserProvided())
            return;
        if (const auto *M = dyn_cast<CXXMethodDecl>(F))
            if (M->getParent()->isLambda())
                return;
        if (F->isTemplateInstantiation())
            return;
        if (!owns(F->getLocation()))
            return;
        Stack.clear();
        Tries.clear();
        LambdaTryBase.clear();
        Calls.clear();
        Throws.clear();
        Accs.clear();
        InitOf.clear();
        CurFn = F;
        std::string id = fid(F);
        std::string file = rel(fileOf(F->getLocation()));

        {
            llvm::json::OStream J(*Body);
            J.object([&] {
                J.attribute("id", id);
                J.attribute("file", file);
                J.attribute("line", (int64_t)lineOf(F->getLocation()));
                if (const auto *C = dyn_cast<CXXConstructorDecl>(F)) {
                    J.attributeBegin("inits");
                    J.arrayBegin();
                    for (const CXXCtorInitializer *I : C->inits()) {
                        if (!I->isWritten())
                            continue;
                        J.object([&] {
                            if (I->isAnyMemberInitializer() && I->getAnyMember())
                                J.attribute("field", qname(I->getAnyMember()));
                            else if (I->isBaseInitializer())
                                J.attribute("base", ty(QualType(I->getBaseClass(), 0)));
                            J.attributeBegin("init");
                            walk(J, I->getInit());
                            J.attributeEnd();
                        });
                    }
                    J.arrayEnd();
                    J.attributeEnd();
                }
                J.attributeBegin("body");
                walk(J, F->getBody());
                J.attributeEnd();
            });
            *Body << "\n";
        }
        {
            llvm::json::OStream J(*Idx);
            J.object([&] {
                J.attribute("K", "fn");
                J.attribute("id", id);
                J.attribute("name", qname(F));
                J.attribute("file", file);
                J.attribute("line", (int64_t)lineOf(F->getLocation()));
                J.attribute("endline", (int64_t)lineOf(F->getEndLoc()));
                J.attribute("ret", ty(F->getReturnType()));
                J.attribute("unit", Unit);
                if (F->getDescribedFunctionTemplate() || F->isDependentContext())
                    J.attribute("tmpl", true);
                if (F->isStatic() || !F->isExternallyVisible())
                    J.attribute("internal", true);
                J.attributeBegin("params");
                J.arrayBegin();
                for (const ParmVarDecl *P : F->parameters())
                    J.object([&] {
                        J.attribute("n", P->getNameAsString());
                        J.attribute("t", ty(P->getType()));
                        J.attribute("di", declId(P));
                        if (P->hasDefaultArg() && !P->hasUninstantiatedDefaultArg() && !P->hasUnparsedDefaultArg())
                            J.attribute("hasdef", true);
                    });
                J.arrayEnd();
                J.attributeEnd();
                if (const auto *M = dyn_cast<CXXMethodDecl>(F)) {
                    J.attribute("cls", qname(M->getParent()));
                    if (M->isVirtual())
                        J.attribute("virt", true);
                    if (M->isConst())
                        J.attribute("const", true);
                    if (M->isStatic())
                        J.attribute("static", true);
                    if (isa<CXXConstructorDecl>(M))
                        J.attribute("ctor", true);
                    if (isa<CXXDestructorDecl>(M))
                        J.attribute("dtor", true);
                    J.attributeBegin("overrides");
                    J.arrayBegin();
                    std::set<const CXXMethodDecl *> seen;
                    std::vector<const CXXMethodDecl *> work(M->begin_overridden_methods(), M->end_overridden_methods());
                    while (!work.empty()) {
                        const CXXMethodDecl *O = work.back();
                        work.pop_back();
                        if (!seen.insert(O).second)
                            continue;
                        J.value(fid(O));
                        work.insert(work.end(), O->begin_overridden_methods(), O->end_overridden_methods());
                    }
                    J.arrayEnd();
                    J.attributeEnd();
                }
                J.attributeBegin("calls");
                J.arrayBegin();
                for (const CallFact &c : Calls)
                    J.object([&] {
                        J.attribute("f", c.fid);
                        J.attribute("l", (int64_t)c.line);
                        if (c.kind != "call")
                            J.attribute("kd", c.kind);
                        if (c.virt)
                            J.attribute("v", true);
                        if (c.lam)
                            J.attribute("lam", true);
                        if (!c.tr.empty()) {
                            J.attributeBegin("tr");
                            J.arrayBegin();
                            for (const std::string &t : c.tr)
                                J.value(t);
                            J.arrayEnd();
                            J.attributeEnd();
                        }
                    });
                J.arrayEnd();
                J.attributeEnd();
                J.attributeBegin("throws");
                J.arrayBegin();
                for (const ThrowFact &t : Throws)
                    J.object([&] {
                        J.attribute("t", t.type);
                        J.attribute("l", (int64_t)t.line);
                        if (t.rethrow)
                            J.attribute("re", true);
                        if (t.lam)
                            J.attribute("lam", true);
                        if (!t.tr.empty()) {
                            J.attributeBegin("tr");
                            J.arrayBegin();
                            for (const std::string &x : t.tr)
                                J.value(x);
                            J.arrayEnd();
                            J.attributeEnd();
                        }
                    });
                J.arrayEnd();
                J.attributeEnd();
                J.attributeBegin("acc");
                J.arrayBegin();
                for (const AccFact &a : Accs)
                    J.object([&] {
                        J.attribute("n", a.n);
                        J.attribute("a", a.a);
                        J.attribute("l", (int64_t)a.line);
                        if (a.global)
                            J.attribute("g", true);
                        if (a.viaThis)
                            J.attribute("th", true);
                    });
                J.arrayEnd();
                J.attributeEnd();
            });
            *Idx << "\n";
        }
        CurFn = nullptr;
    }

    void emitRecord(const CXXRecordDecl *R) {
        if (!R->isThisDeclarationADefinition() || R->isLambda() || R->isImplicit())
            return;
        if (isa<ClassTemplateSpecializationDecl>(R) && !cast<ClassTemplateSpecializationDecl>(R)->isExplicitSpecialization())
            return;
        if (!owns(R->getLocation()))
            return;
        llvm::json::OStream J(*Idx);
        J.object([&] {
            J.attribute("K", "rec");
            J.attribute("name", qname(R));
            J.attribute("file", rel(fileOf(R->getLocation())));
            J.attribute("line", (int64_t)lineOf(R->getLocation()));
            J.attribute("kind", R->getKindName());
            J.attributeBegin("bases");
            J.arrayBegin();
            if (!R->isDependentContext() || true)
                for (const CXXBaseSpecifier &B : R->bases())
                    J.value(ty(B.getType().getUnqualifiedType()));
            J.arrayEnd();
            J.attributeEnd();
            J.attributeBegin("fields");
            J.arrayBegin();
            for (const Decl *D : R->decls()) {
                if (const auto *F = dyn_cast<FieldDecl>(D)) {
                    J.object([&] {
                        J.attribute("n", F->getNameAsString());
                        J.attribute("t", ty(F->getType()));
                        J.attribute("l", (int64_t)lineOf(F->getLocation()));
                        if (F->isMutable())
                            J.attribute("mutable", true);
                        if (F->getType().isConstQualified())
                            J.attribute("const", true);
                        if (F->getType()->isReferenceType())
                            J.attribute("ref", true);
                        if (F->hasInClassInitializer())
                            J.attribute("init", true);
                        J.attribute("acc", (int64_t)F->getAccess());
                    });
                } else if (const auto *V = dyn_cast<VarDecl>(D)) {
                    J.object([&] {
                        J.attribute("n", V->getNameAsString());
                        J.attribute("t", ty(V->getType()));
                        J.attribute("l", (int64_t)lineOf(V->getLocation()));
                        J.attribute("static", true);
                        if (V->getType().isConstQualified())
                            J.attribute("const", true);
                    });
                }
            }
            J.arrayEnd();
            J.attributeEnd();
            J.attributeBegin("methods");
            J.arrayBegin();
            for (const Decl *D : R->decls()) {
                const CXXMethodDecl *M = dyn_cast<CXXMethodDecl>(D);
                if (!M)
                    if (const auto *FT = dyn_cast<FunctionTemplateDecl>(D))
                        M = dyn_cast<CXXMethodDecl>(FT->getTemplatedDecl());
                if (!M || M->isImplicit())
                    continue;
                J.object([&] {
                    J.attribute("id", fid(M));
                    J.attribute("n", M->getNameAsString());
                    if (M->isVirtual())
                        J.attribute("virt", true);
                    if (M->isPure())
                        J.attribute("pure", true);
                    if (M->isConst())
                        J.attribute("const", true);
                    if (M->isStatic())
                        J.attribute("static", true);
                    J.attributeBegin("overrides");
                    J.arrayBegin();
                    for (auto it = M->begin_overridden_methods(); it != M->end_overridden_methods(); ++it)
                        J.value(fid(*it));
                    J.arrayEnd();
                    J.attributeEnd();
                });
            }
            J.arrayEnd();
            J.attributeEnd();
        });
        *Idx << "\n";
    }

    void emitEnum(const EnumDecl *E) {
        if (!E->isThisDeclarationADefinition())
            return;
        if (!owns(E->getLocation()))
            return;
        llvm::json::OStream J(*Idx);
        J.object([&] {
            J.attribute("K", "enum");
            J.attribute("name", qname(E));
            J.attribute("file", rel(fileOf(E->getLocation())));
            J.attribute("line", (int64_t)lineOf(E->getLocation()));
            J.attributeBegin("values");
            J.arrayBegin();
            for (const EnumConstantDecl *C : E->enumerators())
                J.object([&] {
                    J.attribute("n", C->getNameAsString());
                    J.attribute("v", C->getInitVal().getExtValue());
                });
            J.arrayEnd();
            J.attributeEnd();
        });
        *Idx << "\n";
    }

    void emitVar(const VarDecl *V) {
        if (!V->hasGlobalStorage() || isa<ParmVarDecl>(V))
            return;
        if (V->isThisDeclarationADefinition() == VarDecl::DeclarationOnly && !V->isStaticDataMember())
            return;
        if (V->isStaticDataMember() && !V->isThisDeclarationADefinition() && !V->isOutOfLine()) {
            // in-class declaration: still record, it tells us the variable exists
        }
        if (isa<VarTemplateSpecializationDecl>(V))
            return;
        if (!owns(V->getLocation()))
            return;
        llvm::json::OStream J(*Idx);
        J.object([&] {
            J.attribute("K", "var");
            std::string n = qname(V);
            if (V->isStaticLocal())
                if (const auto *PF = dyn_cast_or_null<FunctionDecl>(V->getParentFunctionOrMethod())) {
                    n = qname(PF) + "::" + V->getNameAsString() + "@static";
                    J.attribute("infn", fid(PF));
                }
            J.attribute("name", n);
            J.attribute("type", ty(V->getType()));
            J.attribute("file", rel(fileOf(V->getLocation())));
            J.attribute("line", (int64_t)lineOf(V->getLocation()));
            if (V->getType().isConstQualified() || V->isConstexpr())
                J.attribute("const", true);
            if (V->isStaticLocal())
                J.attribute("staticlocal", true);
            if (V->isStaticDataMember())
                J.attribute("member", true);
            if (V->getTLSKind() != VarDecl::TLS_None)
                J.attribute("tls", true);
            if (V->isThisDeclarationADefinition() != VarDecl::DeclarationOnly)
                J.attribute("def", true);
            if (const Expr *I = V->getAnyInitializer()) {
                const Expr *X = I->IgnoreParenImpCasts();
                if (const auto *SL = dyn_cast<StringLiteral>(X)) {
                    if (SL->getCharByteWidth() == 1 && llvm::json::isUTF8(SL->getBytes()))
                        J.attribute("sv", SL->getBytes());
                } else if (const auto *IL = dyn_cast<InitListExpr>(X)) {
                    bool all = IL->getNumInits() > 0;
                    std::vector<std::string> vals;
                    for (const Expr *E : IL->inits()) {
                        const Expr *Y = E->IgnoreParenImpCasts();
                        // std::array<T,N>{ {a,b} } / { a, b }: look one level down
                        if (const auto *IL2 = dyn_cast<InitListExpr>(Y)) {
                            for (const Expr *E2 : IL2->inits())
                                if (const auto *S2 = dyn_cast<StringLiteral>(E2->IgnoreParenImpCasts()))
                                    vals.push_back(S2->getBytes().str());
                                else
                                    all = false;
                        } else if (const auto *S1 = dyn_cast<StringLiteral>(Y))
                            vals.push_back(S1->getBytes().str());
                        else
                            all = false;
                    }
                    if (all && !vals.empty()) {
                        J.attributeBegin("svs");
                        J.arrayBegin();
                        for (const std::string &v : vals)
                            J.value(llvm::json::fixUTF8(v));
                        J.arrayEnd();
                        J.attributeEnd();
                    }
                } else if (!I->isValueDependent() && V->getType()->isIntegralOrEnumerationType()) {
                    Expr::EvalResult R;
                    if (I->EvaluateAsInt(R, Ctx))
                        J.attribute("iv", R.Val.getInt().getExtValue());
                }
            }
        });
        *Idx << "\n";
    }
};

class Visitor : public RecursiveASTVisitor<Visitor> {
public:
    explicit Visitor(Extractor &E) : Ex(E) {}
    bool shouldVisitTemplateInstantiations() const { return false; }
    bool shouldVisitImplicitCode() const { return false; }
    bool VisitFunctionDecl(FunctionDecl *F) {
        Ex.emitFunction(F);
        return true;
    }
    bool VisitCXXRecordDecl(CXXRecordDecl *R) {
        Ex.emitRecord(R);
        return true;
    }
    bool VisitEnumDecl(EnumDecl *E) {
        Ex.emitEnum(E);
        return true;
    }
    bool VisitVarDecl(VarDecl *V) {
        Ex.emitVar(V);
        return true;
    }
    Extractor &Ex;
};

class Consumer : public ASTConsumer {
public:
    Consumer(std::string unit) : Unit(std::move(unit)) {}
    void HandleTranslationUnit(ASTContext &C) override {
        if (C.getDiagnostics().hasErrorOccurred()) {
            llvm::errs() << "cppfacts: parse errors in " << Unit << "\n";
        }
        Extractor E(C, Root, OutDir, Unit);
        E.open();
        Visitor V(E);
        V.TraverseDecl(C.getTranslationUnitDecl());
    }
    std::string Unit;
};

class Action : public ASTFrontendAction {
public:
    std::unique_ptr<ASTConsumer> CreateASTConsumer(CompilerInstance &, StringRef file) override {
        std::string f = file.str();
        std::string root = Root;
        if (!root.empty() && root.back() != '/')
            root += '/';
        if (f.compare(0, root.size(), root) == 0)
            f = f.substr(root.size());
        for (char &c : f)
            if (c == '/')
                c = '!';
        return std::make_unique<Consumer>(f);
    }
};

} // namespace

int main(int argc, const char **argv) {
    auto Opt = CommonOptionsParser::create(argc, argv, Cat);
    if (!Opt) {
        llvm::errs() << llvm::toString(Opt.takeError());
        return 2;
    }
    llvm::sys::fs::create_directories(OutDir + "/claims");
    ClangTool Tool(Opt->getCompilations(), Opt->getSourcePathList());
    int rc = Tool.run(newFrontendActionFactory<Action>().get());
    return rc ? 2 : 0;
}
